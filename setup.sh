#!/bin/sh
# Offline set-up: nothing to build (pure Python, standard library only).
# Verifies that the interpreter, decimalfp's pure-Python back end and the
# repository's working tree are usable.
cd "$(dirname "$0")" || exit 1
PY="${VERIF_PYTHON:-/venv/bin/python}"
mkdir -p evidence/replay
DECIMALFP_FORCE_PYTHON_IMPL=1 PYTHONDONTWRITEBYTECODE=1 PYTHONPATH="${VERIF_REPO:-/repo}/src" "$PY" - <<'PY' || exit 1
import sys, decimalfp, quantity
from decimalfp import _pydecimalfp
assert decimalfp.Decimal is _pydecimalfp.Decimal, "pure-Python decimalfp not selectable"
print("setup ok: python", sys.version.split()[0], "decimalfp", decimalfp.__version__, "quantity from", quantity.__file__)
PY
PYTHONDONTWRITEBYTECODE=1 "$PY" -c "import vq.main, vq.models.rounding; print('rounding model self-check cases:', vq.models.rounding.SELFCHECK_CASES)"
