#!/usr/bin/env python3
"""Systematic mutation scan of /repo/src/quantity against the checks.

For every AST node of interest one mutant is generated (comparison / arithmetic
/ boolean operator swaps, negated conditions, constants, deleted statements,
dropped raises, `return None`).  Each mutant is written to a scratch copy of
the sources and the twenty quick checks are run against it, most relevant
first, stopping at the first one that reports a violation.  Survivors are the
interesting ones: either behaviourally equivalent, or a gap in the checks.

  python3 selftest/mutscan.py list                 # number of mutants per file
  python3 selftest/mutscan.py run [--jobs 3] [--files term.py,...] [--every N --offset K]
  python3 selftest/mutscan.py survivors            # summary of results so far
  python3 selftest/mutscan.py suite                # run the repository's own
                                                   # tests on the survivors

Results: selftest/mutscan/results.jsonl (appended; re-runs skip known ids).
"""
import argparse
import ast
import copy
import hashlib
import json
import os
import shutil
import subprocess
import sys
import tempfile
import time
from concurrent.futures import ThreadPoolExecutor

VERIF = os.path.dirname(os.path.dirname(os.path.abspath(__file__)))
REPO = os.environ.get("MUTSCAN_REPO", "/repo")
SRC = os.path.join(REPO, "src", "quantity")
OUT = os.path.join(VERIF, "selftest", "mutscan")
RESULTS = os.path.join(OUT, "results.jsonl")
FILES = ["__init__.py", "term.py", "converter.py", "cwdmeta.py",
         "registry.py", "si_prefixes.py", "utils.py", "predefined.py",
         "money/__init__.py", "money/currencies.py"]
ALL = ["C%02d" % i for i in range(1, 21)]

RELEVANCE = {       # file -> (qualname prefix -> checks, most relevant first)
    "term.py": {"": ["C07", "C02", "C19", "C15", "C01", "C17"]},
    "converter.py": {"": ["C14", "C12"]},
    "cwdmeta.py": {"": ["C15", "C02", "C16"]},
    "registry.py": {"": ["C15", "C16", "C17", "C02"]},
    "si_prefixes.py": {"": ["C20"]},
    "utils.py": {"": ["C03", "C06"]},
    "predefined.py": {"": ["C20", "C14", "C02"]},
    "money/currencies.py": {"": ["C08"]},
    "money/__init__.py": {
        "ExchangeRate.__mul__": ["C10", "C09", "C05"],
        "ExchangeRate.__rtruediv__": ["C10", "C05"],
        "ExchangeRate.__truediv__": ["C09"],
        "ExchangeRate.__hash__": ["C19"],
        "ExchangeRate.__eq__": ["C19", "C09"],
        "ExchangeRate": ["C09", "C10", "C19", "C11"],
        "MoneyConverter.__enter__": ["C12"],
        "MoneyConverter.__exit__": ["C12"],
        "MoneyConverter": ["C11", "C16", "C12", "C05"],
        "MoneyMeta.register_converter": ["C12"],
        "MoneyMeta.remove_converter": ["C12"],
        "MoneyMeta": ["C08", "C16", "C05"],
        "Currency": ["C08", "C05", "C06"],
        "": ["C08", "C09", "C10", "C11", "C12"],
    },
    "__init__.py": {
        "Unit.__eq__": ["C19", "C04", "C02", "C03"],
        "Unit.__hash__": ["C19", "C02", "C17"],
        "Unit._compare": ["C04"],
        "Unit.__lt__": ["C04"], "Unit.__le__": ["C04"],
        "Unit.__gt__": ["C04"], "Unit.__ge__": ["C04"],
        "Unit.__mul__": ["C02", "C17", "C05", "C18"],
        "Unit.__rmul__": ["C02", "C18"],
        "Unit.__truediv__": ["C02", "C17", "C05"],
        "Unit.__rtruediv__": ["C02", "C05"],
        "Unit.__pow__": ["C02", "C05", "C17"],
        "Unit._get_factor": ["C01", "C04", "C03", "C07"],
        "Unit.quantum": ["C05", "C06"],
        "Unit.__new__": ["C15", "C16", "C18"],
        "Unit": ["C15", "C02", "C01", "C18", "C07"],
        "QuantityMeta.register_converter": ["C12", "C14"],
        "QuantityMeta.remove_converter": ["C12"],
        "QuantityMeta.registered_converters": ["C12", "C14"],
        "QuantityMeta": ["C15", "C16", "C01", "C17", "C02"],
        "Quantity.__new__": ["C18", "C05", "C15", "C01"],
        "Quantity.equiv_amount": ["C01", "C14", "C12", "C03"],
        "Quantity.convert": ["C01", "C14", "C08"],
        "Quantity.quantize": ["C13", "C05"],
        "Quantity.__round__": ["C13", "C05"],
        "Quantity.allocate": ["C06", "C04"],
        "Quantity.__eq__": ["C04", "C03", "C14", "C08", "C19"],
        "Quantity._compare": ["C04", "C03", "C14", "C08"],
        "Quantity.__hash__": ["C19"],
        "Quantity.__add__": ["C03", "C05", "C14", "C08"],
        "Quantity.__sub__": ["C03", "C05", "C14", "C08"],
        "Quantity.__rsub__": ["C03"],
        "Quantity.__abs__": ["C03", "C05"],
        "Quantity.__neg__": ["C03", "C05"],
        "Quantity.__pos__": ["C03"],
        "Quantity.__mul__": ["C02", "C05", "C08"],
        "Quantity.__truediv__": ["C02", "C05", "C08"],
        "Quantity.__rtruediv__": ["C02", "C05"],
        "Quantity.__pow__": ["C02", "C05", "C17"],
        "Quantity.__str__": ["C18"], "Quantity.__format__": ["C18"],
        "Quantity.__repr__": ["C18"],
        "Quantity": ["C18", "C03", "C02"],
        "_floordiv_rounded": ["C13"],
        "_quantize_fraction": ["C13"],
        "_amnt_and_unit_from_term": ["C02", "C10", "C17", "C15"],
        "_reciprocal_amnt_and_unit": ["C02", "C05"],
        "_qty_from_term": ["C02", "C05"],
        "_iter_ref_units": ["C15", "C16"],
        "": ["C15", "C02", "C01"],
    },
}


def relevant(file, qual):
    table = RELEVANCE.get(file, {"": []})
    best = None
    for prefix in table:
        if prefix and (qual == prefix or qual.startswith(prefix + ".")):
            if best is None or len(prefix) > len(best):
                best = prefix
    first = list(table[best]) if best else []
    for c in table.get("", []):
        if c not in first:
            first.append(c)
    return first + [c for c in ALL if c not in first]


# ------------------------------------------------------------------ mutants

CMP = {ast.Lt: ast.LtE, ast.LtE: ast.Lt, ast.Gt: ast.GtE, ast.GtE: ast.Gt,
       ast.Eq: ast.NotEq, ast.NotEq: ast.Eq, ast.Is: ast.IsNot,
       ast.IsNot: ast.Is, ast.In: ast.NotIn, ast.NotIn: ast.In}
BIN = {ast.Add: ast.Sub, ast.Sub: ast.Add, ast.Mult: ast.Div,
       ast.Div: ast.Mult, ast.Pow: ast.Mult, ast.FloorDiv: ast.Div,
       ast.Mod: ast.FloorDiv}


class Finder(ast.NodeVisitor):
    """collects (path of node, kind) for every mutation site"""

    def __init__(self):
        self.sites = []
        self.stack = []
        self.skip_depth = 0

    def qual(self):
        return ".".join(self.stack)

    def visit_ClassDef(self, node):
        self.stack.append(node.name)
        self.generic_visit(node)
        self.stack.pop()

    def visit_FunctionDef(self, node):
        if any(isinstance(d, ast.Name) and d.id == "overload"
               for d in node.decorator_list):
            return
        self.stack.append(node.name)
        # do not mutate annotations / defaults
        for st in node.body:
            self.visit(st)
        self.stack.pop()

    visit_AsyncFunctionDef = visit_FunctionDef

    def visit_If(self, node):
        # skip `if TYPE_CHECKING` / version blocks
        src = ast.unparse(node.test)
        if "TYPE_CHECKING" in src or "sys.version_info" in src:
            return
        self.sites.append((node, "negate-if", self.qual()))
        self.generic_visit(node)

    def visit_Compare(self, node):
        for i, op in enumerate(node.ops):
            if type(op) in CMP:
                self.sites.append((node, "cmp%d" % i, self.qual()))
        self.generic_visit(node)

    def visit_BinOp(self, node):
        if type(node.op) in BIN:
            self.sites.append((node, "binop", self.qual()))
        self.generic_visit(node)

    def visit_BoolOp(self, node):
        self.sites.append((node, "boolop", self.qual()))
        self.generic_visit(node)

    def visit_UnaryOp(self, node):
        if isinstance(node.op, (ast.Not, ast.USub)):
            self.sites.append((node, "unary", self.qual()))
        self.generic_visit(node)

    def visit_Constant(self, node):
        if isinstance(node.value, bool):
            self.sites.append((node, "const-bool", self.qual()))
        elif isinstance(node.value, int) and abs(node.value) <= 1000:
            self.sites.append((node, "const-int", self.qual()))

    def visit_Return(self, node):
        if node.value is not None and not (
                isinstance(node.value, ast.Constant) and
                node.value.value is None):
            self.sites.append((node, "return-none", self.qual()))
        self.generic_visit(node)

    def visit_Raise(self, node):
        self.sites.append((node, "drop-raise", self.qual()))

    def visit_Assign(self, node):
        if self.stack:
            self.sites.append((node, "drop-stmt", self.qual()))
        self.generic_visit(node)

    def visit_AugAssign(self, node):
        self.sites.append((node, "drop-stmt", self.qual()))
        self.sites.append((node, "aug-flip", self.qual()))
        self.generic_visit(node)

    def visit_Expr(self, node):
        if isinstance(node.value, ast.Call) and self.stack:
            self.sites.append((node, "drop-stmt", self.qual()))
        if isinstance(node.value, ast.Constant):
            return      # docstring
        self.generic_visit(node)

    def visit_AnnAssign(self, node):
        return

    def visit_Assert(self, node):
        self.sites.append((node, "drop-stmt", self.qual()))

    def visit_Break(self, node):
        self.sites.append((node, "drop-stmt", self.qual()))


def mutate(node, kind):
    """mutate node in place; returns a restore function"""
    if kind.startswith("cmp"):
        i = int(kind[3:])
        old = node.ops[i]
        node.ops[i] = CMP[type(old)]()
        return lambda: node.ops.__setitem__(i, old)
    if kind == "binop":
        old = node.op
        node.op = BIN[type(old)]()
        return lambda: setattr(node, "op", old)
    if kind == "boolop":
        old = node.op
        node.op = ast.Or() if isinstance(old, ast.And) else ast.And()
        return lambda: setattr(node, "op", old)
    if kind == "unary":
        old = copy.copy(node.__dict__)
        operand = node.operand
        node.__class__ = operand.__class__
        node.__dict__.clear()
        node.__dict__.update(operand.__dict__)

        def restore():
            node.__class__ = ast.UnaryOp
            node.__dict__.clear()
            node.__dict__.update(old)
        return restore
    if kind == "const-bool":
        old = node.value
        node.value = not old
        return lambda: setattr(node, "value", old)
    if kind == "const-int":
        old = node.value
        node.value = old + 1 if old >= 0 else old - 1
        return lambda: setattr(node, "value", old)
    if kind == "negate-if":
        old = node.test
        node.test = ast.UnaryOp(op=ast.Not(), operand=old)
        return lambda: setattr(node, "test", old)
    if kind == "return-none":
        old = node.value
        node.value = ast.Constant(value=None)
        return lambda: setattr(node, "value", old)
    if kind in ("drop-stmt", "drop-raise"):
        old_cls, old = node.__class__, copy.copy(node.__dict__)
        keep = {k: old[k] for k in ("lineno", "col_offset", "end_lineno",
                                    "end_col_offset") if k in old}
        node.__class__ = ast.Pass
        node.__dict__.clear()
        node.__dict__.update(keep)

        def restore():
            node.__class__ = old_cls
            node.__dict__.clear()
            node.__dict__.update(old)
        return restore
    if kind == "aug-flip":
        old = node.op
        node.op = ast.Sub() if isinstance(old, ast.Add) else ast.Add()
        return lambda: setattr(node, "op", old)
    raise ValueError(kind)


def mutants_of(file):
    path = os.path.join(SRC, file)
    src = open(path, encoding="utf-8").read()
    tree = ast.parse(src)
    f = Finder()
    f.visit(tree)
    base = ast.unparse(tree)
    for node, kind, qual in f.sites:
        before = ast.unparse(node)[:160] if not isinstance(node, ast.Pass) \
            else "pass"
        restore = mutate(node, kind)
        try:
            new = ast.unparse(tree)
        finally:
            restore()
        if new == base:
            continue
        try:
            compile(new, path, "exec")
        except SyntaxError:
            continue
        mid = hashlib.sha1(("%s|%s|%s|%s|%s" % (
            file, getattr(node, "lineno", 0), getattr(node, "col_offset", 0),
            kind, before)).encode()).hexdigest()[:12]
        yield dict(id=mid, file=file, line=getattr(node, "lineno", 0),
                   kind=kind, qual=qual, before=before), new


# ------------------------------------------------------------------ running

def run_mutant(meta, new_src, workers, checks_limit=None):
    d = tempfile.mkdtemp(prefix="vq-ms-")
    t0 = time.time()
    try:
        repo = os.path.join(d, "repo")
        shutil.copytree(os.path.join(REPO, "src"), os.path.join(repo, "src"))
        with open(os.path.join(repo, "src", "quantity", meta["file"]), "w",
                  encoding="utf-8") as f:
            f.write(new_src)
        env = dict(os.environ, VERIF_REPO=repo,
                   VERIF_EVIDENCE_DIR=os.path.join(d, "ev"),
                   VERIF_WORKERS=str(workers), PYTHONDONTWRITEBYTECODE="1")
        order = relevant(meta["file"], meta["qual"])
        if checks_limit:
            order = order[:checks_limit]
        res = dict(meta, killed_by=None, inconclusive=[], checks_run=0)
        for c in order:
            p = subprocess.run([os.path.join(VERIF, "check"), c, "--tier",
                                "quick"], env=env, stdout=subprocess.PIPE,
                               stderr=subprocess.STDOUT, text=True,
                               timeout=1500)
            res["checks_run"] += 1
            if p.returncode == 1:
                res["killed_by"] = c
                line = [ln for ln in p.stdout.splitlines()
                        if ln.startswith("  violation:")]
                res["how"] = line[0][:240] if line else ""
                break
            if p.returncode == 2:
                res["inconclusive"].append(c)
                if len(res["inconclusive"]) >= 3:
                    # the tree does not import / hangs: not a useful mutant
                    res["killed_by"] = "INCONCLUSIVE"
                    break
        res["wall_s"] = round(time.time() - t0, 1)
        return res
    except subprocess.TimeoutExpired:
        return dict(meta, killed_by="TIMEOUT", wall_s=round(time.time() - t0))
    finally:
        shutil.rmtree(d, ignore_errors=True)


def load_results():
    out = {}
    if os.path.exists(RESULTS):
        for line in open(RESULTS):
            try:
                r = json.loads(line)
                out[r["id"]] = r
            except ValueError:
                pass
    return out


def main():
    ap = argparse.ArgumentParser()
    ap.add_argument("cmd", choices=["list", "run", "survivors", "suite"])
    ap.add_argument("--jobs", type=int, default=3)
    ap.add_argument("--workers", type=int, default=6)
    ap.add_argument("--files", default=",".join(FILES))
    ap.add_argument("--every", type=int, default=1)
    ap.add_argument("--offset", type=int, default=0)
    ap.add_argument("--limit", type=int, default=0)
    ap.add_argument("--ids", default="",
                    help="run: re-run just these mutants (comma separated), "
                         "even if they have a result already")
    args = ap.parse_args()
    os.makedirs(OUT, exist_ok=True)
    files = args.files.split(",")
    if args.cmd == "list":
        tot = 0
        for f in files:
            n = sum(1 for _ in mutants_of(f))
            tot += n
            print("%-22s %d" % (f, n))
        print("total", tot)
        return
    if args.cmd == "survivors":
        res = load_results()
        surv = [r for r in res.values() if r.get("killed_by") is None]
        print("%d results, %d survivors" % (len(res), len(surv)))
        by = {}
        for r in res.values():
            by[r.get("killed_by")] = by.get(r.get("killed_by"), 0) + 1
        print(sorted(by.items(), key=lambda kv: -kv[1]))
        for r in sorted(surv, key=lambda r: (r["file"], r["line"])):
            print("%s %s:%d %s [%s] %s%s" % (
                r["id"], r["file"], r["line"], r["kind"], r["qual"],
                r["before"][:90],
                "  suite:" + r["suite"] if r.get("suite") else ""))
        return
    if args.cmd == "suite":
        res = load_results()
        surv = [r for r in res.values()
                if r.get("killed_by") is None and not r.get("suite")]
        index = {}
        for f in FILES:
            for meta, new in mutants_of(f):
                index[meta["id"]] = new
        for r in surv:
            new = index.get(r["id"])
            if new is None:
                continue
            d = tempfile.mkdtemp(prefix="vq-ms-")
            try:
                repo = os.path.join(d, "repo")
                shutil.copytree(os.path.join(REPO, "src"),
                                os.path.join(repo, "src"))
                shutil.copytree(os.path.join(REPO, "tests"),
                                os.path.join(repo, "tests"))
                with open(os.path.join(repo, "src", "quantity", r["file"]),
                          "w", encoding="utf-8") as f:
                    f.write(new)
                p = subprocess.run(
                    ["/venv/bin/python", "-m", "pytest", "-q", "-x", "-p",
                     "no:cacheprovider", "-n", "8", "tests"], cwd=repo,
                    env=dict(os.environ, PYTHONPATH=os.path.join(repo, "src"),
                             PYTHONDONTWRITEBYTECODE="1"),
                    stdout=subprocess.PIPE, stderr=subprocess.STDOUT,
                    text=True, timeout=900)
                r["suite"] = "passes" if p.returncode == 0 else "kills"
            finally:
                shutil.rmtree(d, ignore_errors=True)
            with open(RESULTS, "a") as f:
                f.write(json.dumps(r) + "\n")
            print(r["id"], r["file"], r["line"], r["kind"], r["suite"])
        return
    # run
    done = load_results()
    todo = []
    for f in files:
        for i, (meta, new) in enumerate(mutants_of(f)):
            if i % args.every != args.offset % args.every:
                continue
            if args.ids:
                if meta["id"] not in args.ids.split(","):
                    continue
            elif meta["id"] in done:
                continue
            todo.append((meta, new))
    if args.limit:
        todo = todo[:args.limit]
    print("mutants to run:", len(todo), flush=True)
    with ThreadPoolExecutor(max_workers=args.jobs) as ex:
        futs = [ex.submit(run_mutant, m, n, args.workers) for m, n in todo]
        for k, fu in enumerate(futs):
            r = fu.result()
            with open(RESULTS, "a") as f:
                f.write(json.dumps(r) + "\n")
            print("%d/%d %s %s:%s %s -> %s (%ss)" % (
                k + 1, len(todo), r["id"], r["file"], r["line"], r["kind"],
                r.get("killed_by") or "SURVIVED", r.get("wall_s")),
                flush=True)


if __name__ == "__main__":
    main()
