#!/bin/sh
# selftest/mutate.sh <patch-file> <PROP> [tier]
# Applies a patch to a scratch copy of /repo (outside /repo and /verif), runs
# the property's check against it, removes the copy.  Evidence of the run goes
# to a scratch directory so committed evidence is not disturbed.
patch="$(readlink -f "$1")"; prop="$2"; tier="${3:-quick}"
here="$(cd "$(dirname "$0")/.." && pwd)"
scratch="$(mktemp -d /tmp/vq-mut-XXXXXX)"
trap 'rm -rf "$scratch"' EXIT
mkdir -p "$scratch/repo" "$scratch/ev"
cp -r /repo/src /repo/tests /repo/setup.cfg /repo/pyproject.toml "$scratch/repo/" 2>/dev/null
( cd "$scratch/repo" && patch -p1 -s < "$patch" ) || { echo "PATCH FAILED"; exit 3; }
VERIF_REPO="$scratch/repo" VERIF_EVIDENCE_DIR="$scratch/ev" "$here/check" "$prop" --tier "$tier" | grep -E "^(VIOLATION|INCONCLUSIVE|KNOWN-FINDING|C[0-9]+ |  violation)" | head -${MUT_LINES:-8}
exit 0
