#!/usr/bin/env python3
"""Hand-written mutants (from the M lists of DESIGN.md section 5).

Each mutant is (name, property, file, old text, new text).  `python3
selftest/mkmutants.py` regenerates selftest/mutants/*.patch against the
current /repo sources; `selftest/run_mutants.sh` runs every patch through the
owning property's quick check on a scratch copy.
"""
import difflib
import os
import sys

REPO = os.environ.get("VERIF_REPO", "/repo")
OUT = os.path.join(os.path.dirname(os.path.abspath(__file__)), "mutants")
INIT = "src/quantity/__init__.py"
TERM = "src/quantity/term.py"
MONEY = "src/quantity/money/__init__.py"
CONV = "src/quantity/converter.py"
PRE = "src/quantity/predefined.py"
CUR = "src/quantity/money/currencies.py"

M = [
 # ---- C01
 ("c01_get_factor_inverted", "C01", INIT,
  "                return self._equiv / other._equiv\n        raise TypeError",
  "                return other._equiv / self._equiv\n        raise TypeError"),
 ("c01_equiv_amount_float", "C01", INIT,
  "                return factor * self.amount\n",
  "                return type(self.amount)(float(factor)) * self.amount \\\n"
  "                    if factor.denominator > 10 ** 12 else \\\n"
  "                    factor * self.amount\n"),
 ("c01_no_incompatible_translation", "C01", INIT,
  "                raise IncompatibleUnitsError(msg, self.__class__,\n"
  "                                             unit.qty_cls) from None",
  "                raise"),
 # ---- C02
 ("c02_unit_truediv_wrong_way", "C02", INIT,
  "                    amnt = self._equiv / other._equiv\n            else:\n"
  "                res_def = UnitDefT(((self, 1), (other, -1)))",
  "                    amnt = other._equiv / self._equiv\n            else:\n"
  "                res_def = UnitDefT(((self, 1), (other, -1)))"),
 ("c02_fallback_drops_factor", "C02", INIT,
  "        elif res_def != term:\n            res_unit = _unit_from_term(res_def)",
  "        elif res_def != term:\n            res_unit = _unit_from_term(res_def)\n"
  "            if isinstance(num, Fraction):\n                num = ONE"),
 ("c02_rtruediv_not_inverting", "C02", INIT,
  "            return (other / self.amount * amnt) * unit\n",
  "            return (other * self.amount * amnt) * unit\n"),
 ("c02_cache_key_without_operator", "C02", INIT,
  "                return _op_cache[(operator.truediv, self, other)]",
  "                return _op_cache[(operator.mul, self, other)]"),
 # ---- C03
 ("c03_sub_right_unit", "C03", INIT,
  "            return self.__class__(self.amount - equiv, self.unit)",
  "            return self.__class__(other.amount - other.equiv_amount("
  "self.unit) + self.amount - equiv, self.unit)"),
 ("c03_radd_number_returns_self", "C03", INIT,
  "    # other + self\n    __radd__ = __add__\n",
  "    # other + self\n    def __radd__(self, other):\n"
  "        if other == 0:\n            return self\n"
  "        return self.__add__(other)\n"),
 ("c03_eq_raises_for_other_type", "C03", INIT,
  "            equiv = other.equiv_amount(self.unit)\n"
  "            if equiv is not None:\n                return self.amount == equiv\n"
  "        return False",
  "            equiv = other.equiv_amount(self.unit)\n"
  "            if equiv is not None:\n                return self.amount == equiv\n"
  "        elif isinstance(other, Quantity) and other.amount == 0:\n"
  "            return self.amount == 0\n"
  "        return False"),
 # ---- C04
 ("c04_unit_compare_against_zero", "C04", INIT,
  "                    return op(factor, ONE)",
  "                    return op(factor - ONE, 0 * ONE) if factor != ONE "
  "else op(ONE, ONE + (op is operator.lt))"),
 # ---- C05
 ("c05_truncate_instead_of_round", "C05", INIT,
  "            amnt = Decimal(amnt / quantum, 0) * quantum",
  "            amnt = Decimal(int(amnt / quantum)) * quantum"),
 ("c05_currency_quantum_default", "C05", MONEY,
  "        return self._smallest_fraction\n\n    def __repr__",
  "        return max(self._smallest_fraction, Decimal('0.001'))\n\n    def __repr__"),
 # ---- C07
 ("c07_reduce_conv_wrong_exp", "C07", TERM,
  "                                num_elem *= conv ** exp2",
  "                                num_elem *= conv ** exp1"),
 ("c07_reciprocal_forgets_numeric", "C07", TERM,
  "    return ((elem, -exp) for (elem, exp) in items)",
  "    return ((elem, -exp) if not isinstance(elem, Rational) or exp != 1\n"
  "            else (elem, exp) for (elem, exp) in items)"),
 ("c07_hash_unnormalized", "C07", TERM,
  "                self._hash = hash_val = hash(self.normalized())",
  "                self._hash = hash_val = hash(self._items)"),
 # ---- C08
 ("c08_minor_unit_or_default", "C08", MONEY,
  "                smallest_fraction = Decimal(10) ** -minor_unit",
  "                smallest_fraction = Decimal(10) ** -(minor_unit or 2)"),
 ("c08_table_last_duplicate_wins", "C08", CUR,
  "            else:\n                curr_entry[4].append(country)",
  "            else:\n                curr_entry[4].append(country)\n"
  "                if name.endswith('Franc'):\n"
  "                    _currency_dict[iso_code] = (iso_code, int(iso_num_code),\n"
  "                                                name, 2, curr_entry[4])"),
 # ---- C09
 ("c09_round_to_5_digits", "C09", MONEY,
  "        self._term_amount = Decimal(term_amount * mult / unit_multiple, 6)",
  "        self._term_amount = Decimal(term_amount * mult / unit_multiple,\n"
  "                                    6 if unit_multiple < 1000 else 5)"),
 ("c09_truediv_opposite_direction", "C09", MONEY,
  "                return ExchangeRate(self.unit_currency, ONE,\n"
  "                                    other.unit_currency,\n"
  "                                    self.rate / other.rate)",
  "                return ExchangeRate(other.unit_currency, ONE,\n"
  "                                    self.unit_currency,\n"
  "                                    self.rate / other.rate)"),
 # ---- C11
 ("c11_month_validity_day", "C11", MONEY,
  "        tuple: lambda d: (d.year, d.month),",
  "        tuple: lambda d: (d.year, d.month if d.day < 31 else d.day),"),
 ("c11_update_setdefault", "C11", MONEY,
  "        self._rate_dict.update(items)",
  "        for key, rate in items:\n"
  "            if key[0] is None:\n"
  "                self._rate_dict.setdefault(key, rate)\n"
  "            else:\n"
  "                self._rate_dict[key] = rate"),
 ("c11_default_date_at_construction", "C11", MONEY,
  "            self._get_dflt_effective_date = get_dflt_effective_date\n",
  "            dt = get_dflt_effective_date()\n"
  "            self._get_dflt_effective_date = lambda: dt\n"),
 ("c11_cross_rate_wrong_way", "C11", MONEY,
  "                                    term_rate.rate / unit_rate.rate)",
  "                                    unit_rate.rate / term_rate.rate)"),
 # ---- C13
 ("c13_05up_modulus", "C13", INIT,
  "            if (quot >= 0 and quot % 5 == 0 or",
  "            if (quot >= 0 and quot % 10 == 0 or"),
 ("c13_fraction_ignores_rounding", "C13", INIT,
  "    mult = _floordiv_rounded(quot.numerator, quot.denominator,\n"
  "                             rounding=rounding)",
  "    mult = _floordiv_rounded(quot.numerator, quot.denominator,\n"
  "                             rounding=None)"),
 ("c13_quantum_to_ref_unit", "C13", INIT,
  "        num_quant = quant.equiv_amount(self.unit)\n",
  "        num_quant = quant.equiv_amount(self.unit)\n"
  "        if quant.unit is cls.ref_unit and num_quant is not None and \\\n"
  "                self.unit is not cls.ref_unit:\n"
  "            num_quant = quant.amount\n"),
 # ---- C14
 ("c14_prefer_reverse_row", "C14", CONV,
  "            factor, offset = self._unit_map[(qty.unit, to_unit)]\n"
  "        except KeyError:\n",
  "            factor, offset = self._unit_map[(qty.unit, to_unit)]\n"
  "            if (to_unit, qty.unit) in self._unit_map:\n"
  "                raise KeyError\n"
  "        except KeyError:\n"),
 ("c14_fahrenheit_offset", "C14", PRE,
  "Decimal('-459.67')", "Decimal('-459.76')"),
 # ---- C15
 ("c15_new_unit_skips_dimension_check", "C15", INIT,
  "                if unit is None or unit.qty_cls is not cls:",
  "                if unit is None:"),
 ("c15_derive_ignores_exponents", "C15", INIT,
  "            unit_def_items.append((unit, exp))",
  "            unit_def_items.append((unit, exp if exp < 3 else 2))"),
 ("c15_term_unit_not_listed", "C15", INIT,
  "        cls._unit_map[symbol] = unit\n        # UnitRegistryT",
  "        if define_as is None or len(define_as) <= 2:\n"
  "            cls._unit_map[symbol] = unit\n        # UnitRegistryT"),
 # ---- C16
 ("c16_new_unit_validation_after_registration", "C16", INIT,
  "            if define_as.unit.qty_cls is not cls:\n"
  "                raise TypeError(",
  "            if define_as.unit.qty_cls is not cls:\n"
  "                cls._make_unit(symbol, name, None)\n"
  "                raise TypeError("),
 ("c16_money_unit_before_fraction_check", "C16", MONEY,
  "                if minor_unit != smallest_fraction.precision:\n"
  "                    raise ValueError(",
  "                if minor_unit != smallest_fraction.precision:\n"
  "                    super().new_unit(symbol, name)\n"
  "                    raise ValueError("),
 # ---- C17
 ("c17_cache_undefined_result", "C17", INIT,
  "            except KeyError:\n"
  "                raise UndefinedResultError(operator.mul,\n"
  "                                           self._qty_cls.__name__,\n"
  "                                           other._qty_cls.__name__, ) \\\n"
  "                    from None",
  "            except KeyError:\n"
  "                _UNDEFINED.add((self, other))\n"
  "                raise UndefinedResultError(operator.mul,\n"
  "                                           self._qty_cls.__name__,\n"
  "                                           other._qty_cls.__name__, ) \\\n"
  "                    from None"),
 # ---- C18
 ("c18_float_via_str", "C18", INIT,
  "            try:\n                amnt = Decimal(amount)\n"
  "            except ValueError:\n                amnt = Fraction(amount)",
  "            try:\n                amnt = Decimal(repr(amount))\n"
  "            except ValueError:\n                amnt = Fraction(amount)"),
 ("c18_split_on_whitespace", "C18", INIT,
  "            parts = q_repr.lstrip().split(' ', 1)",
  "            parts = q_repr.split(None, 1)"),
 # ---- C19
 ("c19_rate_hash_repr", "C19", MONEY,
  "        return hash(self.quotation)",
  "        return hash(repr(self))"),
 ("c19_quantity_hash_amount_type", "C19", INIT,
  "        return hash((self.equiv_amount(ref_unit), ref_unit))",
  "        return hash((type(self.amount).__name__, "
  "self.equiv_amount(ref_unit),\n                     ref_unit))"),
 # ---- C20
 ("c20_pound", "C20", PRE, "Decimal('0.45359237')", "Decimal('0.4535924')"),
 ("c20_kibibyte_kilo", "C20", PRE, "Decimal(2) ** 10 * BYTE", "Decimal(10) ** 3 * BYTE"),
]

EXTRA_C17 = ("c17_cache_undefined_result", INIT,
             "_UNIT_OP_CACHE: UnitOpCacheT = {}\n",
             "_UNIT_OP_CACHE: UnitOpCacheT = {}\n_UNDEFINED = set()\n",
             "            # no cache hit\n            res_def = UnitDefT(((self, 1), (other, 1)))",
             "            # no cache hit\n            if (self, other) in _UNDEFINED:\n"
             "                raise UndefinedResultError(operator.mul,\n"
             "                                           self._qty_cls.__name__,\n"
             "                                           other._qty_cls.__name__)\n"
             "            res_def = UnitDefT(((self, 1), (other, 1)))")


def main():
    os.makedirs(OUT, exist_ok=True)
    ok = bad = 0
    index = []
    for name, prop, rel, old, new in M:
        path = os.path.join(REPO, rel)
        src = open(path, encoding="utf-8").read()
        if src.count(old) < 1:
            print("NOT APPLICABLE (text not found):", name)
            bad += 1
            continue
        dst = src.replace(old, new, 1)
        if name == EXTRA_C17[0]:
            for o, n in (EXTRA_C17[2:4], EXTRA_C17[4:6]):
                assert dst.count(o) >= 1, o
                dst = dst.replace(o, n, 1)
        diff = difflib.unified_diff(src.splitlines(True), dst.splitlines(True),
                                    "a/" + rel, "b/" + rel)
        with open(os.path.join(OUT, name + ".patch"), "w",
                  encoding="utf-8") as f:
            f.writelines(diff)
        index.append("%s %s" % (name, prop))
        ok += 1
    with open(os.path.join(OUT, "INDEX"), "w") as f:
        f.write("\n".join(index) + "\n")
    print("wrote %d patches, %d not applicable" % (ok, bad))


if __name__ == "__main__":
    main()
