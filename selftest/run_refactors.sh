#!/bin/sh
# selftest/run_refactors.sh [tier]  -- behaviour-preserving refactorings of
# /repo (written by sub-agents that validated them with their own
# differential tests) must leave every check HELD: a reported violation here
# is a false alarm of the machinery (or a behaviour change the refactoring's
# author missed -- triage before touching a check).
here="$(cd "$(dirname "$0")" && pwd)"
tier="${1:-quick}"
for diff in "$here"/refactors/*.diff; do
  scratch="$(mktemp -d /tmp/vq-rf-XXXXXX)"
  mkdir -p "$scratch/repo"
  cp -r /repo/src "$scratch/repo/"
  if ! ( cd "$scratch/repo" && patch -p1 -s < "$diff" ); then echo "$(basename $diff): PATCH FAILED"; rm -rf "$scratch"; continue; fi
  out=$("$here/../tools/allchecks.sh" "$scratch/repo" "$tier" | grep -v " HELD ")
  if [ -z "$out" ]; then echo "$(basename $diff): all 20 checks HELD"; else echo "$(basename $diff): ALARMS"; echo "$out"; fi
  rm -rf "$scratch"
done
