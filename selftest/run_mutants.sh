#!/bin/sh
# selftest/run_mutants.sh [pattern]  -- runs every selftest/mutants/*.patch
# listed in INDEX (optionally filtered) through the owning property's quick
# check on a scratch copy, first making sure the repository's own suite still
# passes with the mutant (otherwise it is not a realistic change).
here="$(cd "$(dirname "$0")" && pwd)"
pat="${1:-.}"
grep -E "$pat" "$here/mutants/INDEX" | while read name prop; do
  patch="$here/mutants/$name.patch"
  scratch="$(mktemp -d /tmp/vq-mut-XXXXXX)"
  mkdir -p "$scratch/repo" "$scratch/ev"
  cp -r /repo/src /repo/tests /repo/setup.cfg /repo/pyproject.toml "$scratch/repo/" 2>/dev/null
  if ! ( cd "$scratch/repo" && patch -p1 -s < "$patch" ); then echo "$name $prop PATCH-FAILED"; rm -rf "$scratch"; continue; fi
  if [ -z "$SKIP_SUITE" ]; then
    suite=$(cd "$scratch/repo" && PYTHONPATH="$scratch/repo/src" PYTHONDONTWRITEBYTECODE=1 /venv/bin/python -m pytest -q -p no:cacheprovider -x -n 8 tests 2>&1 | tail -1)
    case "$suite" in *passed*) case "$suite" in *failed*|*error*) st="suite-kills";; *) st="suite-passes";; esac;; *) st="suite-kills";; esac
  else st="suite-skipped"; fi
  res=$(VERIF_REPO="$scratch/repo" VERIF_EVIDENCE_DIR="$scratch/ev" "$here/../check" "$prop" --tier quick 2>&1 | grep -E "^(VIOLATION|INCONCLUSIVE)" | head -1 | cut -c1-60)
  [ -z "$res" ] && res="SURVIVED (check held)"
  echo "$name $prop $st :: $res"
  rm -rf "$scratch"
done
