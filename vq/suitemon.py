"""Controller side of the "own test-suite under monitors" stage (DESIGN 9.7).

The repository's tests are a workload written by the maintainer: they reach
declarations, money and converter set-ups that the generators of the checks do
not produce. This stage runs them with vq/suite_plugin.py loaded and judges
only what the monitors of one property recorded; whether the tests themselves
pass is not this stage's business (a failing test is counted, not reported).

Thorough tier only (about 40 s), or when VERIF_SUITEMON=1.
"""
import glob
import json
import os
import shutil
import subprocess
import tempfile

VERIF = os.path.dirname(os.path.dirname(os.path.abspath(__file__)))
PY = "/venv/bin/python"

# counters that must be non-zero for the stage to count as having observed
# anything for the property
NEEDED = {
    "C04": ["C04|comparisons"],
    "C05": ["C05|instances", "C05|instances of quantized units"],
    "C07": ["C07|normalized() calls", "C07|term operations"],
    "C19": ["C19|equal pairs|Quantity", "C19|equal pairs|Unit",
            "C19|equal pairs|Term"],
}

_cache = {}


def wanted(tier):
    return tier == "thorough" or os.environ.get("VERIF_SUITEMON") == "1"


def _run(R):
    key = R.repo
    if key in _cache:
        return _cache[key]
    tests = os.path.join(R.repo, "tests")
    if not os.path.isdir(tests):
        _cache[key] = None
        return None
    out = tempfile.mkdtemp(prefix="vq-suitemon-")
    env = R.env()
    env["PYTHONPATH"] = os.pathsep.join(
        [os.path.join(R.repo, "src"), VERIF])
    env["VQ_SUITEMON_OUT"] = out
    cmd = [PY, "-m", "pytest", "-q", "-p", "no:cacheprovider",
           "-p", "vq.suite_plugin", "-n", "8", "--timeout=600", "tests"]
    res = dict(counts={}, violations=[], errors=[], pkgs=set(), tail="",
               files=0, timed_out=False)
    try:
        p = subprocess.run(cmd, cwd=R.repo, env=env, stdout=subprocess.PIPE,
                           stderr=subprocess.STDOUT, text=True, timeout=1500)
        res["tail"] = "\n".join(p.stdout.strip().splitlines()[-2:])[:300]
        res["rc"] = p.returncode
    except subprocess.TimeoutExpired:
        res["timed_out"] = True
    for f in glob.glob(os.path.join(out, "*.json")):
        try:
            d = json.load(open(f))
        except Exception:
            continue
        res["files"] += 1
        for k, v in d.get("counts", {}).items():
            res["counts"][k] = res["counts"].get(k, 0) + v
        res["violations"].extend(d.get("violations", []))
        res["errors"].extend(d.get("errors", []))
        if d.get("pkg"):
            res["pkgs"].add(d["pkg"])
    shutil.rmtree(out, ignore_errors=True)
    _cache[key] = res
    return res


def suite_stage(chk, R, prop):
    """Judge what the suite-workload monitors recorded for `prop`."""
    res = _run(R)
    if res is None:
        chk.count("suite stage: tree has no tests directory (skipped)")
        return
    if res["timed_out"]:
        chk.inconclusive_because("test-suite workload timed out")
        return
    want = os.path.join(R.repo, "src", "quantity")
    if not res["pkgs"] or any(os.path.realpath(p) != os.path.realpath(want)
                              for p in res["pkgs"]):
        chk.inconclusive_because(
            "test-suite workload imported the package from %s, not from %s "
            "(%s)" % (sorted(res["pkgs"]), want, res["tail"]))
        return
    c = res["counts"]
    for k in NEEDED[prop]:
        n = c.get(k, 0)
        chk.count("suite workload: " + k.split("|", 1)[1], n)
        if not n:
            chk.inconclusive_because(
                "test-suite workload: monitor '%s' observed nothing (%s)" %
                (k, res["tail"]))
    chk.count("suite workload: tests run", c.get("tests", 0))
    if res["errors"]:
        # a monitor that raised internally saw a state it could not read;
        # that is neither held nor violated
        chk.count("suite workload: monitor errors", c.get("monitor errors", 0))
        chk.inconclusive_because("test-suite monitor error: %s" %
                                 res["errors"][0])
    seen = set()
    for v in res["violations"]:
        if v["prop"] != prop:
            continue
        key = (v["mech"], v["what"])
        if key in seen:
            continue
        seen.add(key)
        chk.case(("suite", v["what"]))
        chk.violation("under the repository's own tests (%s): %s" %
                      (v["test"], v["what"]),
                      dict(test=v["test"], what=v["what"],
                           replay="cd <repo> && PYTHONPATH=<repo>/src:%s "
                                  "%s -m pytest -p vq.suite_plugin %s" %
                                  (VERIF, PY, v["test"])), v["mech"])
    nv = c.get("violations|" + prop, 0)
    if nv > len([v for v in res["violations"] if v["prop"] == prop]):
        chk.count("suite workload: further violations not listed",
                  nv - len([v for v in res["violations"]
                            if v["prop"] == prop]))
