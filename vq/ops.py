"""Operands and operations shared by several properties."""
from __future__ import annotations

from fractions import Fraction as F

from .cases import Q, U, OP
from .ctl import num, dec_str
from .gen import rand_fraction, enc_amount
from .models import rounding as RM


def stored(w, x, sym, mode=RM.DEFAULT_MODE):
    """amount actually held by Quantity(x, sym) according to the model"""
    q = w.quantum_of(sym)
    if q is None:
        return F(x)
    return RM.round_to(x, q, mode)


def operand(rng, w, sym, kind, x=None, kinds=("D", "F", "int")):
    """-> (expr, model operand).  kind: q|u|n"""
    if kind == "u":
        return U(sym), ("u", sym)
    if x is None:
        x = rand_fraction(rng, allow_zero=False, small=True)
    if kind == "n":
        # plain numbers of every numeric kind, floats included (exact value)
        if rng.random() < 0.2:
            f = rng.choice([0.1, 2.5, 1e-3, 7.25, 3.0, 1e6, 0.3])
            return ["fl", f.hex()], ("n", F(f))
        e, _ = enc_amount(rng, x, kinds + ("SD",) if False else kinds)
        return e, ("n", F(x))
    e, _ = enc_amount(rng, x, kinds)
    return derived(rng, spelled(rng, e, x, sym), sym), \
        ("q", stored(w, x, sym), sym)


def spelled(rng, e, x, sym, p=0.25):
    """The quantity x sym in one of the spellings the API offers besides
    Quantity(amount, unit): amount * unit, unit * amount, the typed
    constructor, and amount-and-symbol text through the generic factory or
    the unit's own type (text only where x has an exact textual form)."""
    if rng.random() >= p:
        return Q(e, sym)
    k = rng.choice(["mul", "rmul", "typed", "text", "typed-text"])
    if e[0] in ("s", "SD") and k in ("mul", "rmul"):
        k = "typed"         # str * unit is no multiplication
    if k == "mul":
        return OP("*", e, U(sym))
    if k == "rmul":
        return OP("*", U(sym), e)
    typed = ["a", U(sym), "qty_cls"]
    if k == "typed":
        return ["c", typed, [e, U(sym)]]
    x = F(x)
    txt = dec_str(x)
    if txt is None:
        txt = "%d/%d" % (x.numerator, x.denominator)
    fac = ["g", "quantity:Quantity"] if k == "text" else typed
    return ["c", fac, [["s", "%s %s" % (txt, sym)]]]


DERIVATIONS = ("neg-neg", "pos", "mul-one", "rmul-one", "div-one",
               "convert-self", "add-zero", "sub-zero")


def derived(rng, expr, sym, p=0.2):
    """With probability p, the same quantity as the outcome of an operation
    that must not change it (the properties make each of these an identity on
    a stored quantity) instead of fresh from the constructor: operands in
    real programs are mostly results of earlier operations."""
    if rng.random() >= p:
        return expr
    k = rng.choice(DERIVATIONS)
    if k == "neg-neg":
        return ["un", "neg", ["un", "neg", expr]]
    if k == "pos":
        return ["un", "pos", expr]
    if k == "mul-one":
        return OP("*", expr, ["i", 1])
    if k == "rmul-one":
        return OP("*", ["i", 1], expr)
    if k == "div-one":
        return OP("/", expr, ["i", 1])
    if k == "convert-self":
        return ["m", expr, "convert", [U(sym)], {}]
    if k == "add-zero":
        return OP("+", expr, Q(["i", 0], sym))
    return OP("-", expr, Q(["i", 0], sym))


def describe_operand(o):
    if o[0] == "q":
        return "%s %s" % (o[1], o[2])
    if o[0] == "u":
        return "unit %s" % o[1]
    return "number %s" % o[1]


def rogue_converter_sub(chk, rng, w, count="worlds with a deviating converter "
                        "registered on a type with reference unit"):
    """A (steps, judge) pair for a world program: registers, on one type WITH
    a reference unit, a converter callable that answers every ordered pair of
    that type's units with a factor that contradicts the scales.  For such
    types conversion is defined by the scales (C01); a converter is only for
    what the scales cannot answer.  Returns None if the world has no such
    type."""
    from .cases import V, M
    cands = [t for t in w.types.values()
             if t.has_ref and len(w.units_of(t.name)) >= 2]
    if not cands:
        return None
    t = rng.choice(cands)
    us = [u.sym for u in w.units_of(t.name)]
    table = [[a, b, ["i", 42], ["i", 1]] for a in us for b in us if a != b]
    steps = [{"id": "$rogue", "e": ["convfn", {"name": "rogue",
                                               "table": table}]},
             {"k": "rogue", "e": M(V(t.name), "register_converter",
                                   V("$rogue"))}]

    def judge(obs):
        if (obs or {}).get("rogue", {}).get("k") != "E":
            chk.count(count)
    return steps, judge


def computed(rng, w, x, sym, p=0.25):
    """The quantity x sym (exactly) as the RESULT of a value-changing
    operation on other quantities -- a conversion from another unit, a
    division by 3, a sum, a difference -- or None if this case stays with
    the constructor.  Only for units without quantum (there every one of
    these is exact); amounts are then often held as fractions with large
    terms, which is how operands look in real programs."""
    if rng.random() >= p or w.quantum_of(sym) is not None:
        return None
    x = F(x)
    u = w.units[sym]
    k = rng.choice(["convert", "div", "add", "sub", "mul"])
    if k == "convert":
        others = [o.sym for o in w.units_of(u.tname)
                  if o.sym != sym and w.convertible(sym, o.sym) and
                  w.quantum_of(o.sym) is None]
        if not others:
            k = "div"
        else:
            s2 = rng.choice(others)
            return ["m", Q(num(x * u.factor / w.units[s2].factor), s2),
                    "convert", [U(sym)], {}]
    if k == "div":
        return OP("/", Q(num(3 * x), sym), ["i", 3])
    if k == "mul":
        return OP("*", Q(num(x / 7), sym), ["i", 7])
    y = rand_fraction(rng, small=True)
    if k == "add":
        return OP("+", Q(num(x - y), sym), Q(num(y), sym))
    return OP("-", Q(num(x + y), sym), Q(num(y), sym))
