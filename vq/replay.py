"""./check --replay <file>: re-execute the program of a recorded witness in a
fresh worker against the current tree and show what the real code does."""
from __future__ import annotations

import json
import sys
from fractions import Fraction as F

from .ctl import Runner
from .gen import Decl, plan_steps

VOLATILE = ("uid", "ucid", "tcid", "tid", "cid", "oid", "msg")


def strip(x):
    if isinstance(x, dict):
        return {k: strip(v) for k, v in x.items() if k not in VOLATILE}
    if isinstance(x, list):
        return [strip(v) for v in x]
    return x


def decl_from_json(j):
    p = dict(j)
    kind = p.pop("kind")
    for key in ("k", "quantum"):
        if p.get(key) is not None:
            p[key] = F(p[key])
    if "items" in p and kind == "term":
        p["items"] = [((a, F(b) if a == "n" else b), e)
                      for (a, b), e in p["items"]]
    if "items" in p and kind == "derived":
        p["items"] = [(n, e) for n, e in p["items"]]
    p.pop("ref_eff", None)
    return Decl(kind, **p)


def generic_prelude():
    from .props import c07
    pre = [{"e": ["m", ["g", "quantity.money:Money"], "register_currency",
                  [["s", c]]]}
           for c in ("EUR", "USD", "GBP", "JPY", "CHF", "HKD", "BHD")]
    return pre + c07.pool_prelude()


def main(path):
    with open(path) as f:
        rep = json.load(f)
    wit = rep.get("witness", {})
    steps = wit.get("steps")
    if not steps:
        print("replay file has no program (model-only witness): %s" %
              rep.get("what"))
        return 0
    steps = list(steps)
    preload = ["quantity", "quantity.predefined", "quantity.money"]
    pre = []
    if wit.get("declarations") and not any("cls" in s for s in steps):
        plan = [decl_from_json(j) for j in wit["declarations"]]
        pre = plan_steps(plan)
        preload = ["quantity"]
    elif not any("cls" in s or "defelem" in s for s in steps):
        pre = generic_prelude()
    else:
        if any("defelem" in s for s in steps):
            pass
        elif not any(s.get("e", [None, None])[1:2] == ["quantity.money:Money"]
                     for s in steps if isinstance(s.get("e"), list)):
            preload = ["quantity"]
    # make every step observable
    def keyed(sts, prefix=""):
        out = []
        for i, s in enumerate(sts):
            s = dict(s)
            if "body" in s:
                s["body"] = keyed(s["body"], prefix + "%d." % i)
            if "k" not in s and ("e" in s or "cls" in s):
                s["k"] = "_%s%d" % (prefix, i)
            out.append(s)
        return out
    prog = {"pid": "replay", "isolate": True, "steps": pre + keyed(steps)}
    R = Runner()
    try:
        res = R.run([prog], preload=preload, shards=1)
    finally:
        R.close()
    rec = res.get("replay")
    print("property:", rep.get("property"))
    print("recorded:", rep.get("what"))
    if rec is None or rec.get("died"):
        print("replay program did not finish:", rec and rec.get("died"),
              R.lost[:1])
        return 2
    obs = rec["obs"]
    for k, v in obs.items():
        if k.startswith("_") or k.startswith("d"):
            continue
        print("  %-14s %s" % (k, json.dumps(strip(v), ensure_ascii=False)[:400]))
    recorded = wit.get("obs")
    if recorded is None and wit.get("observed") is not None:
        recorded = {steps[-1].get("k", "r"): wit["observed"]}
    if recorded:
        same = all(strip(obs.get(k)) == strip(v) for k, v in recorded.items()
                   if not isinstance(v, dict) or v.get("k") != "skip")
        print("REPRODUCED: the current tree behaves as recorded" if same else
              "NOT REPRODUCED: the current tree behaves differently")
        return 1 if same else 0
    return 0


if __name__ == "__main__":
    sys.exit(main(sys.argv[1]))
