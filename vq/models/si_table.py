"""Hand-written table of the predefined catalogue (independent of the library).

Scales are exact rationals relative to the coherent SI unit of the type
(kg, m, s, m2, m3, m/s, m/s2, N, J, W, Hz, B, B/s), from the SI brochure and
the international yard and pound agreement of 1959:
  1 in = 0.0254 m, 1 ft = 12 in, 1 yd = 3 ft, 1 ch = 22 yd, 1 fur = 10 ch,
  1 mi = 8 fur = 1609.344 m, 1 lb = 0.45359237 kg, 1 st = 14 lb,
  1 oz = 1/16 lb, 1 ct = 0.2 g, 1 ac = 4840 yd2 = 4046.8564224 m2,
  1 kWh = 3.6 MJ, 1 bit = 1/8 B, k/M/G/T = 10^3.., Ki/Mi/Gi/Ti = 2^10..
"""
from __future__ import annotations

from fractions import Fraction as F

# base dimensions: M(ass) L(ength) T(ime) D(ata)   (temperature separate)
DIMS = {
    "Mass": {"M": 1},
    "Length": {"L": 1},
    "Duration": {"T": 1},
    "Area": {"L": 2},
    "Volume": {"L": 3},
    "Velocity": {"L": 1, "T": -1},
    "Acceleration": {"L": 1, "T": -2},
    "Force": {"M": 1, "L": 1, "T": -2},
    "Energy": {"M": 1, "L": 2, "T": -2},
    "Power": {"M": 1, "L": 2, "T": -3},
    "Frequency": {"T": -1},
    "DataVolume": {"D": 1},
    "DataThroughput": {"D": 1, "T": -1},
    "Temperature": {"Th": 1},
}
REF = {"Mass": "kg", "Length": "m", "Duration": "s", "Area": "m²",
       "Volume": "m³", "Velocity": "m/s", "Acceleration": "m/s²",
       "Force": "N", "Energy": "J", "Power": "W", "Frequency": "Hz",
       "DataVolume": "B", "DataThroughput": "B/s", "Temperature": None}
QUANTUM = {"DataVolume": F(1, 8)}

IN = F(254, 10000)
FT = 12 * IN
YD = 3 * FT
CH = 22 * YD
FUR = 10 * CH
MI = 8 * FUR
LB = F(45359237, 100000000)
assert MI == F(1609344, 1000)

_k, _M, _G, _T = 10 ** 3, 10 ** 6, 10 ** 9, 10 ** 12
_Ki, _Mi, _Gi, _Ti = 2 ** 10, 2 ** 20, 2 ** 30, 2 ** 40
BIT = F(1, 8)

UNITS = {
    # Mass
    "kg": ("Mass", F(1)), "g": ("Mass", F(1, 1000)),
    "mg": ("Mass", F(1, 10 ** 6)), "t": ("Mass", F(1000)),
    "lb": ("Mass", LB), "st": ("Mass", 14 * LB), "oz": ("Mass", LB / 16),
    "ct": ("Mass", F(2, 10000)),
    # Length
    "m": ("Length", F(1)), "nm": ("Length", F(1, 10 ** 9)),
    "µm": ("Length", F(1, 10 ** 6)), "mm": ("Length", F(1, 1000)),
    "cm": ("Length", F(1, 100)), "dm": ("Length", F(1, 10)),
    "km": ("Length", F(1000)), "in": ("Length", IN), "ft": ("Length", FT),
    "yd": ("Length", YD), "ch": ("Length", CH), "fur": ("Length", FUR),
    "mi": ("Length", MI),
    # Duration
    "s": ("Duration", F(1)), "ns": ("Duration", F(1, 10 ** 9)),
    "µs": ("Duration", F(1, 10 ** 6)), "ms": ("Duration", F(1, 1000)),
    "min": ("Duration", F(60)), "h": ("Duration", F(3600)),
    "d": ("Duration", F(86400)),
    # Area
    "m²": ("Area", F(1)), "mm²": ("Area", F(1, 10 ** 6)),
    "cm²": ("Area", F(1, 10 ** 4)), "dm²": ("Area", F(1, 100)),
    "km²": ("Area", F(10 ** 6)), "a": ("Area", F(100)),
    "ha": ("Area", F(10 ** 4)), "in²": ("Area", IN ** 2),
    "ft²": ("Area", FT ** 2), "yd²": ("Area", YD ** 2),
    "mi²": ("Area", MI ** 2), "ac": ("Area", 4840 * YD ** 2),
    # Volume
    "m³": ("Volume", F(1)), "mm³": ("Volume", F(1, 10 ** 9)),
    "cm³": ("Volume", F(1, 10 ** 6)), "dm³": ("Volume", F(1, 1000)),
    "km³": ("Volume", F(10 ** 9)), "l": ("Volume", F(1, 1000)),
    "ml": ("Volume", F(1, 10 ** 6)), "cl": ("Volume", F(1, 10 ** 5)),
    "dl": ("Volume", F(1, 10 ** 4)), "in³": ("Volume", IN ** 3),
    "ft³": ("Volume", FT ** 3), "yd³": ("Volume", YD ** 3),
    # Velocity
    "m/s": ("Velocity", F(1)), "km/h": ("Velocity", F(1000, 3600)),
    "ft/s": ("Velocity", FT), "mph": ("Velocity", MI / 3600),
    # Acceleration
    "m/s²": ("Acceleration", F(1)), "mps²": ("Acceleration", MI),
    # Force
    "N": ("Force", F(1)), "J/m": ("Force", F(1)),
    # Energy
    "J": ("Energy", F(1)), "Nm": ("Energy", F(1)), "Ws": ("Energy", F(1)),
    "kWh": ("Energy", F(3600000)),
    # Power
    "W": ("Power", F(1)), "mW": ("Power", F(1, 1000)),
    "kW": ("Power", F(_k)), "MW": ("Power", F(_M)), "GW": ("Power", F(_G)),
    "TW": ("Power", F(_T)),
    # Frequency
    "Hz": ("Frequency", F(1)), "kHz": ("Frequency", F(_k)),
    "MHz": ("Frequency", F(_M)), "GHz": ("Frequency", F(_G)),
    # DataVolume
    "B": ("DataVolume", F(1)), "kB": ("DataVolume", F(_k)),
    "MB": ("DataVolume", F(_M)), "GB": ("DataVolume", F(_G)),
    "TB": ("DataVolume", F(_T)), "KiB": ("DataVolume", F(_Ki)),
    "MiB": ("DataVolume", F(_Mi)), "GiB": ("DataVolume", F(_Gi)),
    "TiB": ("DataVolume", F(_Ti)), "b": ("DataVolume", BIT),
    "kb": ("DataVolume", _k * BIT), "Mb": ("DataVolume", _M * BIT),
    "Gb": ("DataVolume", _G * BIT), "Tb": ("DataVolume", _T * BIT),
    "Kib": ("DataVolume", _Ki * BIT), "Mib": ("DataVolume", _Mi * BIT),
    "Gib": ("DataVolume", _Gi * BIT), "Tib": ("DataVolume", _Ti * BIT),
    # DataThroughput
    "B/s": ("DataThroughput", F(1)), "kB/s": ("DataThroughput", F(_k)),
    "MB/s": ("DataThroughput", F(_M)), "GB/s": ("DataThroughput", F(_G)),
    "TB/s": ("DataThroughput", F(_T)), "KiB/s": ("DataThroughput", F(_Ki)),
    "MiB/s": ("DataThroughput", F(_Mi)), "GiB/s": ("DataThroughput", F(_Gi)),
    "TiB/s": ("DataThroughput", F(_Ti)), "b/s": ("DataThroughput", BIT),
    "kb/s": ("DataThroughput", _k * BIT), "Mb/s": ("DataThroughput", _M * BIT),
    "Gb/s": ("DataThroughput", _G * BIT), "Tb/s": ("DataThroughput", _T * BIT),
    "Kib/s": ("DataThroughput", _Ki * BIT),
    "Mib/s": ("DataThroughput", _Mi * BIT),
    "Gib/s": ("DataThroughput", _Gi * BIT),
    "Tib/s": ("DataThroughput", _Ti * BIT),
    # Temperature (no scale: affine, see models.conv)
    "°C": ("Temperature", None), "°F": ("Temperature", None),
    "K": ("Temperature", None),
}
assert len(UNITS) == 113, len(UNITS)

SI_PREFIXES = {
    "YOCTO": -24, "ZEPTO": -21, "ATTO": -18, "FEMTO": -15, "PICO": -12,
    "NANO": -9, "MICRO": -6, "MILLI": -3, "CENTI": -2, "DECI": -1,
    "DECA": 1, "HECTO": 2, "KILO": 3, "MEGA": 6, "GIGA": 9, "TERA": 12,
    "PETA": 15, "EXA": 18, "ZETTA": 21, "YOTTA": 24,
}

# Components of the compound units (for "compound units have the product of
# their components' scales"): symbol -> [(component symbol, exponent)]
COMPOUND = {
    "m²": [("m", 2)], "mm²": [("mm", 2)], "cm²": [("cm", 2)],
    "dm²": [("dm", 2)], "km²": [("km", 2)], "in²": [("in", 2)],
    "ft²": [("ft", 2)], "yd²": [("yd", 2)], "mi²": [("mi", 2)],
    "m³": [("m", 3)], "mm³": [("mm", 3)], "cm³": [("cm", 3)],
    "dm³": [("dm", 3)], "km³": [("km", 3)], "in³": [("in", 3)],
    "ft³": [("ft", 3)], "yd³": [("yd", 3)],
    "m/s": [("m", 1), ("s", -1)], "km/h": [("km", 1), ("h", -1)],
    "ft/s": [("ft", 1), ("s", -1)], "mph": [("mi", 1), ("h", -1)],
    "m/s²": [("m", 1), ("s", -2)], "mps²": [("mi", 1), ("s", -2)],
    "N": [("kg", 1), ("m", 1), ("s", -2)], "J/m": [("J", 1), ("m", -1)],
    "J": [("N", 1), ("m", 1)], "Nm": [("N", 1), ("m", 1)],
    "Ws": [("W", 1), ("s", 1)], "kWh": [("kW", 1), ("h", 1)],
    "W": [("J", 1), ("s", -1)], "Hz": [("s", -1)],
    "B/s": [("B", 1), ("s", -1)], "b/s": [("b", 1), ("s", -1)],
}

LINEAR_TYPES = [t for t in DIMS if t != "Temperature"]


def units_of(tname):
    return [s for s, (t, _) in UNITS.items() if t == tname]


def scale(sym):
    return UNITS[sym][1]


def type_of(sym):
    return UNITS[sym][0]


def quantum_of(sym):
    """quantum of a unit (in that unit), or None"""
    t, sc = UNITS[sym]
    q = QUANTUM.get(t)
    if q is None:
        return None
    return q / sc


def dim_of(sym):
    return DIMS[UNITS[sym][0]]


def type_for_dim(dim):
    dim = {k: v for k, v in dim.items() if v}
    for t, d in DIMS.items():
        if d == dim:
            return t
    return None


def combine(d1, d2, sign=1):
    out = dict(d1)
    for k, v in d2.items():
        out[k] = out.get(k, 0) + sign * v
    return {k: v for k, v in out.items() if v}
