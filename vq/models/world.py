"""The `dims` world model: types, units, exact scales, operation predictor.

Everything here is derived from *declaration events* (what the program asked
the library to declare) and the property statements -- never from the
library's own scale / lookup / cache code.

Vocabulary
  base element   reference unit of a base type that has one, or any unit of a
                 base type without reference unit (e.g. a currency)
  den(u)         (factor, vec): unit u == factor * prod(base_elem ** exp)
  dim(vec)       vec mapped to base *types*
  refsig(T)      vec of T's reference unit
"""
from __future__ import annotations

from fractions import Fraction

from . import rounding as RM


class TypeM:
    def __init__(self, name, defn, dim, has_ref, ref, quantum, var=None):
        self.name = name
        self.defn = defn            # reduced [(type name, exp)], [] for base
        self.dim = dim              # {base type name: exp}
        self.has_ref = has_ref
        self.ref = ref              # symbol or None
        self.quantum = quantum      # Fraction or None (in reference units)
        self.var = var or name
        self.base = not defn

    def __repr__(self):
        return "TypeM(%s)" % self.name


class UnitM:
    def __init__(self, sym, tname, factor, vec, kind, quantum=None):
        self.sym = sym
        self.tname = tname
        self.factor = Fraction(factor)
        self.vec = dict(vec)
        self.kind = kind
        self.own_quantum = quantum      # currencies: per-unit quantum

    def __repr__(self):
        return "UnitM(%s:%s*%s)" % (self.sym, self.factor, self.vec)


class Rejected(Exception):
    """the model says: this declaration must be rejected"""

    def __init__(self, cls, why=""):
        Exception.__init__(self, cls, why)
        self.cls = cls
        self.why = why


class OutOfDomain(Exception):
    """the model does not define the outcome (generator must avoid)"""


def vmul(v1, v2, sign=1):
    out = dict(v1)
    for k, e in v2.items():
        out[k] = out.get(k, 0) + sign * e
    return {k: e for k, e in out.items() if e}


def vpow(v, n):
    return {k: e * n for k, e in v.items() if e * n}


def reduce_typedef(items):
    """Reduction of a class definition term: equal classes merged, zero
    exponents dropped, first-occurrence order kept."""
    order = []
    exps = {}
    for name, exp in items:
        if name not in exps:
            order.append(name)
            exps[name] = 0
        exps[name] += exp
    return [(n, exps[n]) for n in order if exps[n] != 0]


class World:
    def __init__(self):
        self.types = {}
        self.units = {}
        self.elem_type = {}     # base element symbol -> base type name

    def copy(self):
        w = World()
        w.types = dict(self.types)
        w.units = dict(self.units)
        w.elem_type = dict(self.elem_type)
        return w

    # ------------------------------------------------------------ queries
    def den(self, sym):
        u = self.units[sym]
        return u.factor, u.vec

    def dim_of_vec(self, vec):
        dim = {}
        for el, e in vec.items():
            t = self.elem_type[el]
            dim[t] = dim.get(t, 0) + e
        return {k: e for k, e in dim.items() if e}

    def type_by_dim(self, dim):
        for t in self.types.values():
            if t.dim == dim:
                return t
        return None

    def refsig(self, t):
        if not t.has_ref:
            return None
        return self.units[t.ref].vec

    def units_of(self, tname):
        return [u for u in self.units.values() if u.tname == tname]

    def scale(self, sym):
        u = self.units[sym]
        t = self.types[u.tname]
        if not t.has_ref:
            return None
        return u.factor

    def quantum_of(self, sym):
        u = self.units[sym]
        if u.own_quantum is not None:
            return u.own_quantum
        t = self.types[u.tname]
        if t.quantum is None:
            return None
        return t.quantum / u.factor

    def convertible(self, s1, s2):
        """units of one type related by a plain scale factor"""
        u1, u2 = self.units[s1], self.units[s2]
        if u1.tname != u2.tname:
            return False
        if s1 == s2:
            return True
        return self.types[u1.tname].has_ref

    def refval(self, amount, sym):
        return Fraction(amount) * self.units[sym].factor

    # ------------------------------------------------------- declarations
    def expand_dim(self, defn):
        dim = {}
        for name, exp in defn:
            for b, e in self.types[name].dim.items():
                dim[b] = dim.get(b, 0) + e * exp
        return {k: e for k, e in dim.items() if e}

    def declare_base_type(self, name, ref=None, quantum=None, var=None):
        if name in self.types:
            raise OutOfDomain("type name reuse")
        if ref is not None:
            if ref == "":
                ref = None
            elif ref in self.units:
                raise Rejected("dup-symbol")
        if quantum is not None and ref is None:
            raise Rejected("quantum-without-ref")
        t = TypeM(name, [], {name: 1}, ref is not None, ref,
                  Fraction(quantum) if quantum is not None else None, var)
        self.types[name] = t
        if ref is not None:
            self.units[ref] = UnitM(ref, name, 1, {ref: 1}, "ref")
            self.elem_type[ref] = name
        return t

    def declare_derived_type(self, name, items, ref=None, quantum=None,
                             var=None):
        """items: [(type name, exp)] as written. ref: explicit symbol, or
        None for the default symbol (then the caller supplies the observed
        one through set_ref_symbol)."""
        if name in self.types:
            raise OutOfDomain("type name reuse")
        defn = reduce_typedef(items)
        if not defn:
            raise OutOfDomain("empty definition")
        dim = self.expand_dim(defn)
        if not dim:
            raise OutOfDomain("dimensionless definition")
        other = self.type_by_dim(dim)
        if other is not None:
            raise Rejected("dup-dimension", other.name)
        has_ref = all(self.types[n].has_ref for n, _ in defn)
        if not has_ref and ref:
            raise OutOfDomain("explicit ref symbol without base ref units")
        if quantum is not None and not has_ref:
            raise Rejected("quantum-without-ref")
        if has_ref and ref is not None and ref in self.units:
            raise Rejected("dup-symbol")
        t = TypeM(name, defn, dim, has_ref, ref if has_ref else None,
                  Fraction(quantum) if quantum is not None else None, var)
        self.types[name] = t
        if has_ref and ref is not None:
            self._add_ref_unit(t, ref)
        return t

    def _add_ref_unit(self, t, ref):
        vec = {}
        for n, e in t.defn:
            vec = vmul(vec, vpow(self.units[self.types[n].ref].vec, e))
        t.ref = ref
        self.units[ref] = UnitM(ref, t.name, 1, vec, "ref")

    def default_ref_symbol(self, t):
        """Term.__str__ of the reference-unit definition, when predictable
        (component symbols without '/')."""
        pos, neg = [], []
        sup = {1: "", 2: "²", 3: "³", 4: "⁴", 5: "⁵", 6: "⁶", 7: "⁷",
               8: "⁸", 9: "⁹"}
        for n, e in t.defn:
            s = self.types[n].ref
            if s is None or "/" in s or abs(e) > 9:
                return None
            (pos if e > 0 else neg).append(s + sup[abs(e)])
        out = "·".join(pos) if pos else "1"
        if neg:
            out += "/" + "·".join(neg)
        return out

    def set_ref_symbol(self, tname, sym):
        t = self.types[tname]
        if sym in self.units:
            raise Rejected("dup-symbol")
        self._add_ref_unit(t, sym)

    def check_symbol(self, sym):
        if not isinstance(sym, str):
            raise Rejected("bad-symbol")
        if sym == "":
            raise Rejected("empty-symbol")
        if sym in self.units:
            raise Rejected("dup-symbol")

    def declare_unit_plain(self, tname, sym, quantum=None):
        """unit without definition (only for base types without ref unit)"""
        t = self.types[tname]
        if t.has_ref or not t.base:
            raise OutOfDomain("definition-less unit in a type with ref unit")
        self.check_symbol(sym)
        self.units[sym] = UnitM(sym, tname, 1, {sym: 1}, "plain", quantum)
        self.elem_type[sym] = tname
        return self.units[sym]

    def declare_unit_scaled(self, tname, sym, k, parent, mode=RM.DEFAULT_MODE):
        """T.new_unit(sym, name, k * parent)"""
        t = self.types[tname]
        self.check_symbol(sym)
        p = self.units[parent]
        if p.tname != tname:
            raise Rejected("wrong-type-definition")
        k = Fraction(k)
        q = self.quantum_of(parent)
        if q is not None:
            # the definition `k * parent` is a quantity of a quantized type
            # and is itself rounded to the parent's grid first
            k = RM.round_to(k, q, mode)
        if k <= 0:
            raise OutOfDomain("non-positive factor")
        # in a type without reference unit the new unit is k times the
        # parent in the parent's own base element(s); nothing converts
        # between the two without a converter, but products and quotients
        # see the scale
        self.units[sym] = UnitM(sym, tname, k * p.factor, p.vec, "scaled")
        return self.units[sym]

    def term_den(self, items):
        """items: [(('n', Fraction) | ('u', sym), exp)] -> (factor, vec)"""
        factor = Fraction(1)
        vec = {}
        for (kind, x), e in items:
            if kind == "n":
                if x == 0:
                    raise OutOfDomain("zero numeric element")
                factor *= Fraction(x) ** e
            else:
                u = self.units[x]
                factor *= u.factor ** e
                vec = vmul(vec, vpow(u.vec, e))
        return factor, vec

    def term_accepts(self, tname, factor, vec):
        """Does a term with this denotation denote a unit of type tname?
        returns True / False / None (gray)"""
        t = self.types[tname]
        if t.has_ref:
            return vec == self.refsig(t)
        if self.dim_of_vec(vec) != t.dim:
            return False
        cands = [u for u in self.units_of(tname) if u.vec == vec]
        if not cands:
            return False
        if any(u.factor == 1 or u.factor == factor for u in cands):
            return True
        return None

    def declare_unit_term(self, tname, sym, items):
        """T.new_unit(sym, name, Term(items))"""
        self.check_symbol(sym)
        factor, vec = self.term_den(items)
        if factor <= 0:
            raise OutOfDomain("non-positive factor")
        ok = self.term_accepts(tname, factor, vec)
        if ok is None:
            raise OutOfDomain("gray zone: only other-scaled units declared")
        if not ok:
            raise Rejected("wrong-dimension-definition")
        self.units[sym] = UnitM(sym, tname, factor, vec, "term")
        return self.units[sym]

    def declare_unit_derived(self, tname, sym, usyms):
        """T.derive_unit_from(*units, symbol=sym)"""
        t = self.types[tname]
        if t.base:
            raise Rejected("derive-on-base-type")
        if len(usyms) != len(t.defn):
            raise Rejected("derive-wrong-count")
        items = []
        for (n, e), s in zip(t.defn, usyms):
            if self.units[s].tname != n:
                raise Rejected("derive-wrong-units")
            items.append((("u", s), e))
        if sym is not None:
            self.check_symbol(sym)
        factor, vec = self.term_den(items)
        if sym is None:
            raise OutOfDomain("default derived symbol: use observed")
        self.units[sym] = UnitM(sym, tname, factor, vec, "derived")
        return self.units[sym]

    # ------------------------------------------------------- predictions
    def operand_den(self, opnd):
        """opnd: ('q', amount, sym) | ('u', sym) | ('n', value)
        -> (value factor, vec)"""
        if opnd[0] == "q":
            f, v = self.den(opnd[2])
            return Fraction(opnd[1]) * f, v
        if opnd[0] == "u":
            return self.den(opnd[1])
        return Fraction(opnd[1]), {}

    def predict_mul(self, op, a, b):
        """Prediction for a*b, a/b (op in '*', '/') of operands that are not
        both plain numbers.  Returns a dict:
          kind = number|qty|undefined|incomm|gray|scaled|zerodiv|samediv-error
        """
        fa, va = self.operand_den(a)
        fb, vb = self.operand_den(b)
        if op == "/" and fb == 0:
            return {"kind": "zerodiv"}
        # number operand: keep type and unit, scale the amount
        if b[0] == "n" and a[0] in "qu":
            sym = a[2] if a[0] == "q" else a[1]
            amount = (Fraction(a[1]) if a[0] == "q" else Fraction(1))
            amount = amount * fb if op == "*" else amount / fb
            return {"kind": "scaled", "sym": sym, "amount": amount}
        if a[0] == "n" and op == "*":
            sym = b[2] if b[0] == "q" else b[1]
            amount = (Fraction(b[1]) if b[0] == "q" else Fraction(1)) * fa
            return {"kind": "scaled", "sym": sym, "amount": amount}
        # same type division: number if convertible
        sa = a[2] if a[0] == "q" else a[1] if a[0] == "u" else None
        sb = b[2] if b[0] == "q" else b[1] if b[0] == "u" else None
        if op == "/" and sa is not None and sb is not None and \
                self.units[sa].tname == self.units[sb].tname and \
                not self.convertible(sa, sb):
            if self.units[sa].vec == self.units[sb].vec:
                # type without reference unit, same base-unit signature:
                # commensurable, but the type offers no conversion; the
                # exact number or a conversion error are both accepted
                return {"kind": "number-lenient", "value": fa / fb}
            return {"kind": "samediv-error"}
        value = fa * fb if op == "*" else fa / fb
        vec = vmul(va, vb, 1 if op == "*" else -1)
        pred = self.predict_value(value, vec)
        ua = self.units[sa].factor if sa is not None else Fraction(1)
        ub = self.units[sb].factor if sb is not None else Fraction(1)
        pred["ufactor"] = ua * ub if op == "*" else ua / ub
        return pred

    def predict_pow(self, a, n):
        fa, va = self.operand_den(a)
        if n == 0:
            return {"kind": "number", "value": Fraction(1)}
        if fa == 0 and n < 0:
            return {"kind": "zerodiv"}
        pred = self.predict_value(fa ** n, vpow(va, n))
        if a[0] in "qu":
            pred["ufactor"] = self.units[a[2] if a[0] == "q"
                                         else a[1]].factor ** n
        return pred

    def predict_value(self, value, vec):
        if not vec:
            return {"kind": "number", "value": value}
        dim = self.dim_of_vec(vec)
        if not dim:
            # type-level dimension cancels, unit-level signature does not
            return {"kind": "incomm", "value": value, "vec": vec}
        t = self.type_by_dim(dim)
        if t is None:
            return {"kind": "undefined"}
        if t.has_ref:
            if vec != self.refsig(t):
                return {"kind": "incomm", "value": value, "vec": vec}
            return {"kind": "qty", "type": t.name, "value": value,
                    "vec": vec}
        cands = [u for u in self.units_of(t.name) if u.vec == vec]
        if not cands:
            return {"kind": "undefined"}
        return {"kind": "qty-noref", "type": t.name, "value": value,
                "vec": vec, "cands": [u.sym for u in cands]}

    def expected_amount(self, value, sym, mode=RM.DEFAULT_MODE):
        """amount of a result with exact value `value` expressed in unit sym,
        rounded once if the unit has a quantum"""
        x = Fraction(value) / self.units[sym].factor
        q = self.quantum_of(sym)
        if q is not None:
            return RM.round_to(x, q, mode)
        return x


# ---------------------------------------------------------------------------
# the predefined catalogue as a world

def predefined_world(currencies=()):
    from . import si_table as SI
    w = World()
    base = {"Mass": "M", "Length": "L", "Duration": "T", "DataVolume": "D"}
    letter2type = {v: k for k, v in base.items()}
    for tname, dim in SI.DIMS.items():
        if tname == "Temperature":
            continue
        d = {letter2type[k]: e for k, e in dim.items()}
        t = TypeM(tname, [] if tname in base else [("?", 1)], d, True,
                  SI.REF[tname], SI.QUANTUM.get(tname))
        t.base = tname in base
        w.types[tname] = t
    for tname in base:
        w.elem_type[SI.REF[tname]] = tname
    for sym, (tname, sc) in SI.UNITS.items():
        if tname == "Temperature":
            continue
        vec = {SI.REF[b]: e for b, e in w.types[tname].dim.items()}
        w.units[sym] = UnitM(sym, tname, sc, vec, "predefined")
    t = TypeM("Temperature", [], {"Temperature": 1}, False, None, None)
    w.types["Temperature"] = t
    for sym in ("°C", "°F", "K"):
        w.units[sym] = UnitM(sym, "Temperature", 1, {sym: 1}, "plain")
        w.elem_type[sym] = "Temperature"
    if currencies:
        add_money(w, currencies)
    return w


def add_money(w, currencies):
    """currencies: {code: minor units (int) or smallest fraction
    (Fraction, for currencies declared with Money.new_unit)}"""
    w.types["Money"] = TypeM("Money", [], {"Money": 1}, False, None, None)
    for code, minor in currencies.items():
        q = minor if isinstance(minor, Fraction) \
            else Fraction(1, 10 ** minor)
        w.units[code] = UnitM(code, "Money", 1, {code: 1}, "plain",
                              quantum=q)
        w.elem_type[code] = "Money"
    return w
