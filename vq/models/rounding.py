"""Integer rounding of a Fraction under the eight decimal rounding modes.

Written from the definitions in the documentation of the standard `decimal`
module; cross-checked at import against decimal.Decimal.quantize on a fixed
grid (two independent oracles must agree before either is trusted).
"""
from __future__ import annotations

import decimal
from fractions import Fraction

MODES = ["ROUND_05UP", "ROUND_CEILING", "ROUND_DOWN", "ROUND_FLOOR",
         "ROUND_HALF_DOWN", "ROUND_HALF_EVEN", "ROUND_HALF_UP", "ROUND_UP"]
HALF_MODES = ("ROUND_HALF_DOWN", "ROUND_HALF_EVEN", "ROUND_HALF_UP")
DEFAULT_MODE = "ROUND_HALF_EVEN"


def round_int(x, mode):
    """Round Fraction x to an integer according to mode."""
    x = Fraction(x)
    fl = x.numerator // x.denominator        # floor
    if fl == x:
        return fl
    ce = fl + 1
    toward0 = fl if x > 0 else ce
    away0 = ce if x > 0 else fl
    if mode == "ROUND_FLOOR":
        return fl
    if mode == "ROUND_CEILING":
        return ce
    if mode == "ROUND_DOWN":
        return toward0
    if mode == "ROUND_UP":
        return away0
    if mode == "ROUND_05UP":
        # round away from zero if the last digit after rounding towards
        # zero would have been 0 or 5; otherwise towards zero
        return away0 if abs(toward0) % 5 == 0 else toward0
    twice = 2 * (x - fl)                      # in (0, 2)
    if twice < 1:
        return fl
    if twice > 1:
        return ce
    # exact tie
    if mode == "ROUND_HALF_UP":
        return away0
    if mode == "ROUND_HALF_DOWN":
        return toward0
    if mode == "ROUND_HALF_EVEN":
        return fl if fl % 2 == 0 else ce
    raise ValueError(mode)


def round_to(x, quantum, mode):
    """Nearest multiple of quantum (Fraction > 0) according to mode."""
    quantum = Fraction(quantum)
    return round_int(Fraction(x) / quantum, mode) * quantum


def is_tie(x, quantum=1):
    q = Fraction(x) / Fraction(quantum)
    return (2 * q).denominator == 1 and q.denominator != 1


def _selfcheck():
    ctx = decimal.Context(prec=60)
    one = decimal.Decimal(1)
    n = 0
    for num in range(-260, 261):
        for den in (1, 2, 4, 5, 8, 10, 20, 40):
            x = Fraction(num, den)
            d = ctx.divide(decimal.Decimal(num), decimal.Decimal(den))
            for mode in MODES:
                want = int(d.quantize(one, rounding=getattr(decimal, mode),
                                      context=ctx))
                got = round_int(x, mode)
                if want != got:
                    raise AssertionError(
                        "rounding model disagrees with decimal: %s %s: "
                        "%s vs %s" % (x, mode, got, want))
                n += 1
    return n


SELFCHECK_CASES = _selfcheck()
