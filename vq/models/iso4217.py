"""Independent parse of the bundled ISO 4217 table (controller side)."""
from __future__ import annotations

import os
from xml.etree import ElementTree

from ..ctl import repo_path


def load(path=None):
    """-> ({code: (name, minor units)}, [codes excluded because their minor
    units are not numeric]).  First entry of a code wins."""
    path = path or os.path.join(repo_path(), "src", "quantity", "money",
                                "iso_4217.xml")
    root = ElementTree.parse(path).getroot()
    table = {}
    excluded = []
    for entry in root.iter("CcyNtry"):
        code = entry.findtext("Ccy")
        name = entry.findtext("CcyNm")
        minor = entry.findtext("CcyMnrUnts")
        nbr = entry.findtext("CcyNbr")
        if code is None:
            continue
        if minor is None or not minor.strip().isdigit() or nbr is None or \
                not nbr.strip().isdigit():
            if code not in excluded:
                excluded.append(code)
            continue
        if code not in table:
            table[code] = (name, int(minor))
    excluded = [c for c in excluded if c not in table]
    return table, excluded
