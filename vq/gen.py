"""Seeded generators: amounts, declaration plans (synthetic worlds)."""
from __future__ import annotations

from fractions import Fraction as F

from .cases import Q, U, V, M, OP
from .ctl import num, dec_str
from .models.world import World, Rejected, OutOfDomain

NAMES = ["Alpha", "Bravo", "Charlie", "Delta", "Echo", "Foxtrot", "Golf",
         "Hotel", "India", "Juliet", "Kilo_", "Lima", "Mike", "Nova",
         "Oscar", "Papa", "Quebec", "Romeo", "Sierra", "Tango", "Uniform",
         "Victor", "Whisky", "Xray", "Yankee", "Zulu"]

QUANTA = [F(1, 3), F(1, 8), F(5, 100), F(7, 1000), F(1), F(1, 100), F(1, 4),
          F(1), F(12)]


# ------------------------------------------------------------------ amounts

def rand_fraction(rng, allow_zero=True, positive=False, small=False):
    r = rng.random()
    if r < 0.08 and allow_zero:
        return F(0)
    if small or r < 0.5:
        x = F(rng.randint(1, 2000), rng.choice([1, 1, 2, 4, 5, 8, 10, 100,
                                                1000, 3, 7, 12, 125]))
    elif r < 0.75:
        x = F(rng.randint(1, 10 ** 9), 10 ** rng.randint(0, 12))
    elif r < 0.9:
        e = rng.randint(-40, 40)
        x = F(rng.randint(1, 10 ** 6)) * F(10) ** e
    else:
        x = F(rng.randint(1, 10 ** 30), rng.randint(1, 10 ** 6))
    if not positive and rng.random() < 0.35:
        x = -x
    return x


def rand_float_fraction(rng):
    """a Fraction that is exactly a binary double"""
    r = rng.random()
    if r < 0.3:
        f = rng.choice([0.1, 0.2, 0.3, 1.1, 2.675, 1e-7, 123.456, 0.5, 7.0,
                        1e22, 1e300, 5e-324, 2.5e-10, -0.1, -3.75])
    elif r < 0.6:
        f = rng.uniform(-1000, 1000)
    else:
        f = rng.uniform(-1, 1) * 10 ** rng.randint(-30, 30)
    return F(f)


def enc_amount(rng, x, kinds=("D", "F", "int", "fl", "SD", "s")):
    """encode Fraction x in a random admissible kind -> (expr, kind)"""
    x = F(x)
    ok = []
    for k in kinds:
        if k == "int" and x.denominator != 1:
            continue
        if k in ("D", "SD", "s") and dec_str(x) is None:
            continue
        if k == "fl":
            try:
                if x != 0 and (abs(x) > F(10) ** 300 or abs(x) < F(10) ** -300):
                    continue
                if F(x.numerator / x.denominator) != x:
                    continue
            except OverflowError:
                continue
        ok.append(k)
    if not ok:
        ok = ["F"]
    k = rng.choice(ok)
    return num(x, k), k


# ------------------------------------------------------------- declarations

class Decl:
    """One declaration event (data), applicable to the model and renderable
    as program steps."""

    def __init__(self, kind, **p):
        self.kind = kind
        self.p = p

    def __repr__(self):
        return "Decl(%s, %r)" % (self.kind, self.p)

    def to_json(self):
        return {"kind": self.kind, **{k: (str(v) if isinstance(v, F) else v)
                                      for k, v in self.p.items()}}

    # names this declaration needs / creates
    def needs(self):
        p = self.p
        k = self.kind
        if k == "base":
            return set()
        if k == "subclass":
            return {"T:" + p["parent"]}
        if k == "derived":
            return {"T:" + n for n, _ in p["items"]}
        if k == "plain":
            return {"T:" + p["t"]}
        if k == "scaled":
            return {"T:" + p["t"], "U:" + p["parent"]}
        if k == "term":
            return {"T:" + p["t"]} | {"U:" + x for (kk, x), _ in p["items"]
                                      if kk == "u"}
        if k == "derive":
            return {"T:" + p["t"]} | {"U:" + s for s in p["units"]}
        raise ValueError(k)

    def creates(self):
        p = self.p
        if self.kind in ("base", "derived", "subclass"):
            out = {"T:" + p["name"]}
            if p.get("ref_eff"):
                out.add("U:" + p["ref_eff"])
            return out
        return {"U:" + p["sym"]}

    def apply(self, w: World):
        p = self.p
        k = self.kind
        if k == "base":
            return w.declare_base_type(p["name"], p.get("ref"),
                                       p.get("quantum"))
        if k == "subclass":
            # `class Span(Length): pass` is a new base type of its own,
            # without reference unit and without units
            # with a reference-unit symbol of its own (`class Altitude(
            # Length, ref_unit_symbol='FL')`) it is a base type with
            # reference unit -- and without the parent's quantum
            if p["parent"] not in w.types:
                raise KeyError(p["parent"])
            t = w.declare_base_type(p["name"], p.get("ref"))
            t.subclass_of = p["parent"]
            if p.get("ref"):
                p["ref_eff"] = p["ref"]
            return t
        if k == "derived":
            t = w.declare_derived_type(p["name"], p["items"], p.get("ref"),
                                       p.get("quantum"))
            if t.has_ref and p.get("ref") is None:
                sym = w.default_ref_symbol(t)
                if sym is None:
                    del w.types[p["name"]]
                    raise OutOfDomain("unpredictable default symbol")
                try:
                    w.set_ref_symbol(p["name"], sym)
                except Rejected:
                    del w.types[p["name"]]
                    raise
            p["ref_eff"] = t.ref
            return t
        if k == "plain":
            return w.declare_unit_plain(p["t"], p["sym"])
        if k == "scaled":
            return w.declare_unit_scaled(p["t"], p["sym"], p["k"],
                                         p["parent"])
        if k == "term":
            return w.declare_unit_term(p["t"], p["sym"], p["items"])
        if k == "derive":
            return w.declare_unit_derived(p["t"], p["sym"], p["units"])
        raise ValueError(k)

    def expr(self):
        """expression that performs the declaration (not for types)"""
        p = self.p
        k = self.kind
        name = ["s", p.get("uname") or ("unit " + str(p.get("sym")))]
        if k == "plain":
            return M(V(p["t"]), "new_unit", ["s", p["sym"]])
        if k == "scaled":
            pk = p.get("kkind") or ""
            kx = num(p["k"], None if pk.startswith(("prefix:", "div:"))
                     else p.get("kkind"))
            if pk.startswith("prefix:"):
                # an SI prefix object as the factor
                kx = ["g", "quantity.si_prefixes:" + p["kkind"][7:]]
            if pk.startswith("div:"):
                # unit / number
                return M(V(p["t"]), "new_unit", ["s", p["sym"]], name,
                         OP("/", U(p["parent"]), ["i", int(pk[4:])]))
            if p.get("rmul"):
                d = OP("*", U(p["parent"]), kx)
            else:
                d = OP("*", kx, U(p["parent"]))
            return M(V(p["t"]), "new_unit", ["s", p["sym"]], name, d)
        if k == "term":
            items = []
            for (kk, x), e in p["items"]:
                if kk == "n":
                    items.append([num(x, p.get("kkind")), e])
                else:
                    items.append([U(x), e])
            return M(V(p["t"]), "new_unit", ["s", p["sym"]], name,
                     ["term", items])
        if k == "derive":
            kw = {}
            if p["sym"] is not None:
                kw["symbol"] = ["s", p["sym"]]
            return ["m", V(p["t"]), "derive_unit_from",
                    [U(s) for s in p["units"]], kw]
        raise ValueError(k)

    def steps(self, key):
        p = self.p
        k = self.kind
        if k == "subclass":
            kw = {}
            if p.get("ref"):
                kw["ref_unit_symbol"] = ["s", p["ref"]]
            return [{"cls": {"name": p["name"], "base": V(p["parent"]),
                             "kw": kw}, "id": p["name"], "k": key}]
        if k in ("base", "derived"):
            kw = {}
            if p.get("ref") is not None:
                kw["ref_unit_symbol"] = ["s", p["ref"]]
                if p.get("refname"):
                    kw["ref_unit_name"] = ["s", p["refname"]]
            if p.get("quantum") is not None:
                # an integral quantum is written as a plain int half of
                # the time (decided by the value, so that replays agree)
                q_ = F(p["quantum"])
                kw["quantum"] = num(q_, "int" if q_.denominator == 1 and
                                    len(p["name"]) % 2 == 0 else None)
            if k == "derived":
                if p.get("form") == "ops":
                    e = None
                    for n, ex in p["items"]:
                        # the bare class where the exponent is +-1 (class
                        # op class, term op class), else class ** n (a term)
                        f = V(n) if ex == 1 or (ex == -1 and p.get(
                            "bare", True)) else OP("**", V(n), ["i", abs(ex)])
                        if e is None:
                            if ex > 0:
                                e = f
                            else:
                                e = ["term", [[V(n), ex]]]
                        elif ex > 0:
                            e = OP("*", e, f)
                        else:
                            e = OP("/", e, f)
                    if e[0] == "v":
                        e = ["term", [[e, 1]]]
                    kw["define_as"] = e
                else:
                    kw["define_as"] = ["term", [[V(n), ex]
                                                for n, ex in p["items"]]]
            return [{"cls": {"name": p["name"], "kw": kw}, "id": p["name"],
                     "k": key}]
        return [{"e": self.expr(), "id": "u:" + str(p.get("sym")), "k": key}]


def random_plan(rng, money=False, max_base=4, max_derived=4, max_units=4,
                aliases=True, noref=True, quanta=True, int_terms=True,
                force_quantum=False, power_type=False, subclasses=True):
    """A valid declaration plan (list of Decl in dependency order) and the
    resulting model."""
    w = World()
    plan = []
    names = NAMES[:]
    rng.shuffle(names)
    # symbols must not follow the declaration order (normal forms are
    # ordered by registration index, symbols are free)
    alphabet = list("abcdefghijklmnopqrstuvwxyz")
    rng.shuffle(alphabet)
    letters = iter(alphabet)
    tletter = {}

    def add(d):
        try:
            d.apply(w)
        except (Rejected, OutOfDomain, KeyError):
            return False
        plan.append(d)
        return True

    nb = rng.randint(2, max_base)
    with_ref = 0
    for i in range(nb):
        name = names.pop()
        L = next(letters)
        tletter[name] = L
        has_ref = (not noref) or rng.random() < 0.72 or \
            (i == nb - 1 and with_ref == 0)
        if has_ref:
            with_ref += 1
            q = rng.choice(QUANTA) if quanta and (
                rng.random() < 0.2 or (force_quantum and with_ref == 1)) \
                else None
            add(Decl("base", name=name, ref=L + "0", refname="ref " + L,
                     quantum=q))
        else:
            add(Decl("base", name=name))
            for j in range(rng.randint(2, 3)):
                add(Decl("plain", t=name, sym="%s%d" % (L, j)))
    if force_quantum and rng.random() < 0.6:
        # the inverse of a quantized type: number / unit of it lands in the
        # quantized type
        qt = [t for t in w.types.values() if t.quantum is not None]
        if qt:
            name = names[-1]
            L = alphabet[len(tletter)]
            if add(Decl("derived", name=name, items=[(qt[0].name, -1)],
                        ref=L + "0", form=rng.choice(["ops", "term"]))):
                names.pop()
                tletter[name] = L
                next(letters)
    if power_type:
        # the square of a type, quantized: unit ** 2 and quantity ** 2 land
        # on a grid that non-reference units do not fit
        lin = [t for t in w.types.values() if t.has_ref]
        if lin:
            name = names[-1]
            L = alphabet[len(tletter)]
            if add(Decl("derived", name=name,
                        items=[(rng.choice(lin).name, 2)], ref=L + "0",
                        quantum=rng.choice(QUANTA), form="term")):
                names.pop()
                tletter[name] = L
                next(letters)
    if rng.random() < 0.3:
        # a pure power T ** e of one type, without its siblings (T ** -1,
        # T ** 2 ...): short cuts through a missing sibling show here
        tn = list(w.types)
        name = names[-1]
        L = alphabet[len(tletter)]
        tb = rng.choice(tn)
        if add(Decl("derived", name=name,
                    items=[(tb, rng.choice([-3, -2, -2, 2, 3]))],
                    ref=(L + "0") if w.types[tb].has_ref and
                    rng.random() < 0.7 else None,
                    form=rng.choice(["ops", "term"]), bare=True)):
            names.pop()
            tletter[name] = L
            next(letters)
    for _ in range(rng.randint(1, max_derived)):
        for _try in range(6):
            tn = list(w.types)
            nf = rng.choice([1, 2, 2, 2, 3])
            items = [(rng.choice(tn), rng.choice([-2, -1, -1, 1, 1, 1, 2, 3]))
                     for _ in range(nf)]
            name = names[-1]
            L = alphabet[len(tletter)]
            d = Decl("derived", name=name, items=items,
                     ref=(L + "0") if rng.random() < 0.7 else None,
                     form=rng.choice(["ops", "term"]),
                     bare=rng.random() < 0.6,
                     quantum=(rng.choice(QUANTA)
                              if quanta and rng.random() <
                              (0.5 if force_quantum else 0.12) else None))
            if d.p["quantum"] is not None or d.p["ref"] is not None:
                # explicit symbol / quantum only make sense with a ref unit
                from .models.world import reduce_typedef
                red = reduce_typedef(items)
                if not red or not all(w.types[n].has_ref for n, _ in red):
                    d.p["ref"] = None
                    d.p["quantum"] = None
            if add(d):
                names.pop()
                tletter[name] = L
                next(letters)
                break
    if subclasses and rng.random() < 0.3:
        name = names.pop()
        if rng.random() < 0.5:
            # a subclass with a reference unit (and later units) of its own
            L = alphabet[len(tletter)]
            qt_ = [n for n, t_ in w.types.items() if t_.quantum is not None]
            par = rng.choice(qt_) if qt_ and rng.random() < 0.6 \
                else rng.choice(list(w.types))
            if add(Decl("subclass", name=name, ref=L + "0", parent=par)):
                tletter[name] = L
                next(letters)
        else:
            add(Decl("subclass", name=name,
                     parent=rng.choice(list(w.types))))
    # units
    counter = {}

    def newsym(tname):
        L = tletter[tname]
        n = counter.get(L, 0) + 1
        while "%s%d" % (L, n) in w.units:
            n += 1
        counter[L] = n
        sym = "%s%d" % (L, n)
        r = rng.random()
        if r < 0.05:
            sym = "µ" + sym
        elif r < 0.08:
            sym = sym + "²"
        elif r < 0.11:
            # a symbol with a blank inside ("fl oz"); sometimes its first
            # word is the symbol of a unit of another type
            others = [s_ for s_ in w.units if " " not in s_ and
                      w.units[s_].tname != tname]
            if others and r < 0.095:
                sym = rng.choice(others) + " " + sym
            else:
                sym = sym[0] + " " + sym[1:]
            if sym in w.units:
                sym = sym + "x"
        return sym

    def rand_factor():
        r = rng.random()
        if aliases and r < 0.1:
            return F(1)
        if r < 0.45:
            return F(rng.choice([2, 3, 7, 10, 12, 60, 100, 1000, 1024]))
        if r < 0.8:
            return F(rng.randint(1, 9999), 10 ** rng.randint(1, 4))
        return F(rng.randint(1, 50), rng.choice([3, 7, 9, 11, 6, 13]))

    for tname in list(w.types):
        t = w.types[tname]
        if tname not in tletter:
            continue            # subclasses stay empty
        if t.has_ref and t.quantum is not None and int_terms and \
                rng.random() < 0.6:
            # units whose scale is not a multiple of the type's quantum
            # (only a term can declare them: factor * unit is a quantity
            # and gets rounded): one unit of them is less than a quantum
            for _ in range(rng.randint(1, 2)):
                kf = t.quantum * rng.choice([F(1, 10), F(3, 2), F(1, 4),
                                             F(1, 1000), F(7, 3)])
                add(Decl("term", t=tname, sym=newsym(tname),
                         kkind="F" if dec_str(kf) is None else None,
                         items=[(("n", kf), 1), (("u", t.ref), 1)]))
        if t.has_ref:
            for _ in range(rng.randint(0, max_units)):
                sym = newsym(tname)
                mine = [u.sym for u in w.units_of(tname)]
                form = rng.choice(["scaled", "scaled", "term", "term2",
                                   "derive", "term3", "termref"])
                k = rand_factor()
                if form == "termref":
                    # a family of units each given as Term((int, ref unit)):
                    # already in normal form, so the number reaches the
                    # unit's scale as written; ratios between two of them
                    # are not binary fractions
                    if not int_terms:
                        form = "term"
                    else:
                        ref = t.ref
                        for j in range(rng.randint(2, 3)):
                            kj = F(rng.choice([3, 7, 9, 11, 13, 21, 6, 49]))
                            add(Decl("term", t=tname, sym=sym, kkind="int",
                                     items=[(("n", kj), 1),
                                            (("u", ref), 1)]))
                            sym = newsym(tname)
                        continue
                kk = None
                if k.denominator == 1 and int_terms and rng.random() < 0.5:
                    kk = "int"
                elif dec_str(k) is not None and rng.random() < 0.3:
                    kk = "F"
                if form == "scaled":
                    if rng.random() < 0.15:
                        # SIPrefix * unit / unit * SIPrefix
                        from .models.si_table import SI_PREFIXES
                        pn = rng.choice(sorted(SI_PREFIXES))
                        k, kk = F(10) ** SI_PREFIXES[pn], "prefix:" + pn
                    elif rng.random() < 0.12:
                        # unit / number (a Fraction scale for 3, 7, ...)
                        dn = rng.choice([3, 7, 8, 12, 1000])
                        k, kk = F(1, dn), "div:%d" % dn
                    add(Decl("scaled", t=tname, sym=sym, k=k, kkind=kk,
                             parent=rng.choice(mine),
                             rmul=rng.random() < 0.3))
                elif form == "term":
                    add(Decl("term", t=tname, sym=sym, kkind=kk,
                             items=[(("n", k), 1),
                                    (("u", rng.choice(mine)), 1)]))
                elif form == "term2" and not t.base:
                    items = []
                    if rng.random() < 0.6:
                        items.append((("n", k), rng.choice([1, 1, -1])))
                    for n, e in t.defn:
                        items.append((("u", rng.choice(
                            [u.sym for u in w.units_of(n)])), e))
                    rng.shuffle(items)
                    add(Decl("term", t=tname, sym=sym, kkind=kk, items=items))
                elif form == "term3":
                    # a long term: the type's own units with one exponent
                    # split over two different (convertible) units, and / or
                    # a pair of convertible units of another type that
                    # cancels dimensionally
                    items = []
                    if t.base:
                        items.append((("u", rng.choice(mine)), 1))
                    else:
                        for n, e in t.defn:
                            us = [u.sym for u in w.units_of(n)]
                            if abs(e) >= 2 and len(us) >= 2:
                                sgn = 1 if e > 0 else -1
                                items.append((("u", rng.choice(us)), sgn))
                                items.append((("u", rng.choice(us)),
                                              e - sgn))
                            else:
                                items.append((("u", rng.choice(us)), e))
                    lin = [x for x in w.types.values()
                           if x.has_ref and len(w.units_of(x.name)) >= 2]
                    if lin and rng.random() < 0.8:
                        x = rng.choice(lin)
                        us = [u.sym for u in w.units_of(x.name)]
                        ex = rng.choice([1, 2, -1, -2])
                        items.append((("u", rng.choice(us)), ex))
                        items.append((("u", rng.choice(us)), -ex))
                    if rng.random() < 0.5:
                        items.append((("n", k), rng.choice([1, -1])))
                    rng.shuffle(items)
                    add(Decl("term", t=tname, sym=sym, kkind=kk, items=items))
                elif not t.base:
                    add(Decl("derive", t=tname, sym=sym,
                             units=[rng.choice([u.sym for u in w.units_of(n)])
                                    for n, _ in t.defn]))
        elif t.base and rng.random() < 0.5:
            # scaled units in a base type without reference unit (like a
            # user's millikelvin): k * unit of the same type
            mine = [u.sym for u in w.units_of(tname)]
            for _ in range(rng.randint(1, 2)):
                if not mine:
                    break
                add(Decl("scaled", t=tname, sym=newsym(tname),
                         k=rng.choice([F(1, 1000), F(1000), F(3), F(1, 8)]),
                         parent=rng.choice(mine), rmul=rng.random() < 0.3))
        elif not t.base:
            for _ in range(rng.randint(1, 3)):
                sym = newsym(tname)
                try:
                    us = [rng.choice([u.sym for u in w.units_of(n)])
                          for n, _ in t.defn]
                except IndexError:
                    break
                add(Decl("derive", t=tname, sym=sym, units=us))
    return plan, w


def plan_steps(plan, prefix="d"):
    steps = []
    for i, d in enumerate(plan):
        steps.extend(d.steps("%s%d" % (prefix, i)))
    return steps
