"""C19 -- objects that compare equal hash equal."""
from __future__ import annotations

import random
from fractions import Fraction as F

from ..cases import Case, run_cases, world_program, Q, U, V, M, OP
from ..ctl import num, val, is_exc, dec_str
from ..gen import random_plan, rand_fraction, enc_amount
from ..models import si_table as SI
from ..models.world import predefined_world
from ..ops import computed
from ..oracle import brief

RULE = ("pairs constructed to be equal by the model: quantities across every "
        "unit pair of every predefined type, Decimal/Fraction twins, all unit "
        "pairs per type (same-scale pairs l/dm3, J/Nm/Ws ...), terms in "
        "different construction orders and numeric spellings, exchange rates "
        "with different unit multiples, converter-mediated equal quantities "
        "(temperature, money under a converter), synthetic worlds with alias "
        "units; plus random pairs; a case is non-trivial if the library "
        "reports the pair equal; distinct by (class, operands)")
ANCHORS = ("Quantity.__hash__", "Unit.__hash__", "Term.__hash__",
           "ExchangeRate.__hash__", "Quantity.__eq__", "Unit.__eq__")


def pair_sub(chk, cls, ea, eb, desc, mech, pre=None, wit_extra=None):
    steps = list(pre or []) + [{"k": "r", "e": ["eqhash", ea, eb]}]

    def judge(obs):
        r = (obs or {}).get("r")
        if r is None:
            chk.inconclusive_because("hash pair not observed")
            return
        if r.get("k") != "T":
            chk.count("pair not constructible|" + cls)
            return
        items = r["items"]
        eq = items[0].get("v")
        chk.case((cls, desc), nontrivial=bool(eq))
        if not eq:
            chk.count("unequal|" + cls)
            return
        chk.count("equal|" + cls)
        if items[1].get("k") == "str":
            chk.violation("%s: equal but hash() raises: %s" %
                          (desc, items[2].get("v")),
                          dict(obs=obs, steps=steps), "hash-raises|" + cls)
            return
        same_hash = items[1].get("v")
        n = val(items[2])
        if same_hash is not True or n != 1:
            w = dict(obs=obs, steps=steps, cls=cls)
            if wit_extra:
                w.update(wit_extra)
            chk.violation("%s: a == b but hash(a) %s hash(b), len({a, b}) = "
                          "%s" % (desc, "==" if same_hash else "!=", n), w,
                          mech)
        else:
            chk.sample(dict(cls=cls, pair=desc))
    return steps, judge


def run(chk, R, tier, seed):
    rng = random.Random("C19-%d" % seed)
    for c in ("equal|quantity-cross-unit", "equal|quantity-twins",
              "equal|unit-same-scale", "equal|term", "equal|rate",
              "equal|converter-temperature", "equal|converter-money",
              "equal|world-quantity", "equal|world-unit", "worlds"):
        chk.require(c)
    w = predefined_world()
    wrap = lambda jd: (lambda obs, rec, case: jd(obs))      # noqa: E731
    cases = []

    def add(sub):
        cases.append(Case(sub[0], wrap(sub[1])))

    # 1/2 quantities across units, twins
    per = 2 if tier == "quick" else 6
    for tname in SI.LINEAR_TYPES:
        us = SI.units_of(tname)
        for s1 in us:
            for s2 in us:
                for _ in range(per):
                    v = rand_fraction(rng, small=True)
                    if tname == "DataVolume":
                        v = F(int(v) * 8192)
                    x1, x2 = v / SI.scale(s1), v / SI.scale(s2)
                    if s1 == s2:
                        if dec_str(x1) is None:
                            continue
                        add(pair_sub(chk, "quantity-twins",
                                     Q(num(x1, "D"), s1), Q(num(x1, "F"), s1),
                                     "%s %s as Decimal and as Fraction" %
                                     (x1, s1), "quantity-twins"))
                    else:
                        add(pair_sub(chk, "quantity-cross-unit",
                                     computed(rng, w, x1, s1) or
                                     Q(num(x1), s1), Q(num(x2), s2),
                                     "%s %s and %s %s" % (x1, s1, x2, s2),
                                     "quantity-cross-unit"))
                add(pair_sub(chk, "unit-same-scale" if
                             SI.scale(s1) == SI.scale(s2) and s1 != s2
                             else "unit-pair", U(s1), U(s2),
                             "units %s and %s" % (s1, s2),
                             "unit-eq-hash"))
    chk.exhaustive["unit pairs per predefined type"] = True
    # 4 terms
    T = lambda items: ["term", items]                      # noqa: E731
    syms = [s for s in SI.UNITS if SI.type_of(s) != "Temperature"]
    for _ in range(300 if tier == "quick" else 6000):
        n = rng.randint(1, 4)
        items = []
        for _ in range(n):
            if rng.random() < 0.3:
                items.append([num(F(rng.choice([2, 3, 10, 5]),
                                    rng.choice([1, 1, 4, 7]))),
                              rng.choice([1, 1, 2, -1])])
            else:
                items.append([U(rng.choice(syms)), rng.choice([1, 1, 2, -1,
                                                                -2])])
        other = items[:]
        rng.shuffle(other)
        style = rng.choice(["shuffled", "normalized", "split-exp", "arith",
                            "arith"])
        if style == "shuffled":
            eb = T(other)
        elif style == "arith":
            # the same term built by term arithmetic from one-item terms
            eb = None
            for el, ex in other:
                one = T([[el, abs(ex)]])
                if eb is None:
                    eb = one if ex > 0 else M(one, "reciprocal")
                elif ex > 0:
                    eb = OP("*", eb, one)
                else:
                    eb = OP("/", eb, one)
        elif style == "normalized":
            eb = M(T(other), "normalized")
        else:
            # (x, 2) spelled as (x, 1), (x, 1)
            other2 = []
            for el, ex in other:
                if abs(ex) == 2:
                    other2 += [[el, ex // 2], [el, ex // 2]]
                else:
                    other2.append([el, ex])
            eb = T(other2)
        add(pair_sub(chk, "term", T(items), eb,
                     "term %s vs %s of it" % (items, style), "term-eq-hash"))
    # 5 exchange rates
    XR = ["g", "quantity.money:ExchangeRate"]
    prelude = [{"e": M(["g", "quantity.money:Money"], "register_currency",
                       ["s", c])} for c in ("EUR", "USD", "GBP", "JPY")]
    for _ in range(150 if tier == "quick" else 3000):
        a, b = rng.sample(["EUR", "USD", "GBP", "JPY"], 2)
        ta = F(rng.randint(1, 10 ** 6), 10 ** rng.randint(0, 5))
        m1 = 10 ** rng.randint(0, 3)
        m2 = 10 ** rng.randint(0, 3)
        add(pair_sub(chk, "rate",
                     ["c", XR, [U(a), ["i", m1], U(b), num(ta * m1)]],
                     ["c", XR, [U(a), ["i", m2], U(b), num(ta * m2)]],
                     "rate %s->%s %s per 1 as multiples %d and %d" %
                     (a, b, ta, m1, m2), "rate-eq-hash"))
    for _ in range(60 if tier == "quick" else 600):
        a, b = rng.sample(["EUR", "USD", "GBP", "JPY"], 2)
        ta = rng.choice([F(1, 2), F(3, 2), F(5, 4), F(125), F(1, 8),
                         F(25, 2)])
        add(pair_sub(chk, "rate",
                     ["c", XR, [U(a), ["i", 1], U(b), num(ta, "fl")]],
                     ["c", XR, [U(a), ["i", 1], U(b), num(ta, "D")]],
                     "rate %s->%s %s as float and as Decimal" % (a, b, ta),
                     "rate-eq-hash"))
        # inputs that the 6-digit rounding alters
        fl = rng.choice([1.1, 0.3, 2.7, 123.456, 0.07])
        add(pair_sub(chk, "rate",
                     ["c", XR, [U(a), ["i", 1], U(b), ["fl", fl.hex()]]],
                     ["c", XR, [U(a), ["i", 1], U(b), ["D", repr(fl)]]],
                     "rate %s->%s %r as float and as Decimal" % (a, b, fl),
                     "rate-eq-hash"))
        long = "1.0812344%d" % rng.randint(1, 4)
        add(pair_sub(chk, "rate",
                     ["c", XR, [U(a), ["i", 1], U(b), ["s", long]]],
                     ["c", XR, [U(a), ["i", 1], U(b), ["s", "1.081234"]]],
                     "rate %s->%s %s and 1.081234" % (a, b, long),
                     "rate-eq-hash"))
        r1 = ["c", XR, [U(a), ["i", 1], U(b), num(ta, "D")]]
        add(pair_sub(chk, "rate", r1,
                     M(M(r1, "inverted"), "inverted"),
                     "rate %s->%s %s and the inverse of its inverse" %
                     (a, b, ta), "rate-eq-hash"))
    # 6 converter mediated: temperature
    from .c14 import TEMP
    for _ in range(60 if tier == "quick" else 1000):
        u, v = rng.sample(list(TEMP), 2)
        x = rand_fraction(rng, small=True)
        y = (TEMP[u][0] * x + TEMP[u][1] - TEMP[v][1]) / TEMP[v][0]
        add(pair_sub(chk, "converter-temperature", Q(num(x), u),
                     Q(num(y), v), "%s %s and %s %s" % (x, u, y, v),
                     "converter-equality-hash"))
    # 6b the same temperature twice, held as Decimal and as Fraction (the
    # hash of types without reference unit takes another path)
    for _ in range(40 if tier == "quick" else 400):
        u = rng.choice(list(TEMP))
        x = F(rng.randint(-5000, 5000), rng.choice([1, 2, 4, 10, 100]))
        add(pair_sub(chk, "quantity-twins", Q(num(x, "D"), u),
                     Q(num(x, "F"), u), "%s %s as Decimal and as Fraction" %
                     (x, u), "quantity-twins"))
        chk.count("twins in a type without reference unit")
    # 7 random pairs
    for _ in range(300 if tier == "quick" else 5000):
        s1, s2 = rng.choice(syms), rng.choice(syms)
        add(pair_sub(chk, "random", Q(num(rand_fraction(rng, small=True)), s1),
                     Q(num(rand_fraction(rng, small=True)), s2),
                     "random %s %s" % (s1, s2), "quantity-cross-unit"))
    run_cases(chk, R, cases, per_program=120, prelude=prelude)

    # money under a converter (isolated: registers a converter)
    cases = []
    MC = ["g", "quantity.money:MoneyConverter"]
    for i in range(8 if tier == "quick" else 100):
        rate = rng.choice([F(5, 4), F(2), F(1, 2), F(4), F(8, 5), F(4, 5),
                           F(5, 8), F(25, 2)])
        pre = prelude + [
            {"id": "mc", "e": ["c", MC, [U("EUR")]]},
            {"e": M(V("mc"), "update", ["none"],
                    ["l", [["t", [U("USD"), num(rate), ["i", 1]]]]])},
        ]
        body = []
        subs = []
        for j in range(5):
            x = F(rng.randint(1, 10 ** 5))
            y = x * rate
            st, jd = pair_sub(chk, "converter-money", Q(num(x), "EUR"),
                              Q(num(y), "USD"),
                              "%s EUR and %s USD under a converter with "
                              "rate %s" % (x, y, rate),
                              "converter-equality-hash")
            for s in st:
                s["k"] = "m%d.%s" % (j, s["k"])
            body.extend(st)
            subs.append((j, jd))
        steps = pre + [{"with": V("mc"), "body": body, "k": "with"}]

        def judge(obs, rec, case, subs=subs):
            if obs is None:
                chk.inconclusive_because("money converter case died")
                return
            for j, jd in subs:
                pre_ = "m%d." % j
                jd({k[len(pre_):]: v for k, v in obs.items()
                    if k.startswith(pre_)})
        cases.append(Case(steps, judge, isolate=True))
    run_cases(chk, R, cases)

    # synthetic worlds (alias units, chains)
    nw = 25 if tier == "quick" else 600
    cases = []
    for wi in range(nw):
        plan, ww = random_plan(rng, noref=True)
        planj = [d.to_json() for d in plan]
        wid = "world%d" % wi
        subs = []
        for t in ww.types.values():
            us = [u.sym for u in ww.units_of(t.name)]
            for s1 in us:
                for s2 in us:
                    if s1 >= s2:
                        continue
                    subs.append(pair_sub(
                        chk, "world-unit", U(s1), U(s2),
                        "units %s and %s" % (s1, s2), "unit-eq-hash",
                        wit_extra=dict(declarations=planj)))
                    if not t.has_ref and \
                            ww.units[s1].vec == ww.units[s2].vec:
                        # no reference unit, but both units are multiples
                        # of the same base unit(s): the library does not
                        # convert between them; should an implementation
                        # call them equal by scale, the hashes must agree
                        v = rand_fraction(rng, small=True)
                        subs.append(pair_sub(
                            chk, "world-quantity-noref",
                            Q(num(v / ww.units[s1].factor), s1),
                            Q(num(v / ww.units[s2].factor), s2),
                            "value %s in %s and in %s (type without "
                            "reference unit)" % (v, s1, s2),
                            "quantity-cross-unit",
                            wit_extra=dict(declarations=planj)))
                        chk.count("pairs equal by scale in a type without "
                                  "reference unit")
                    if t.has_ref and t.quantum is None:
                        v = rand_fraction(rng, small=True)
                        subs.append(pair_sub(
                            chk, "world-quantity",
                            computed(rng, ww, v / ww.units[s1].factor, s1)
                            or Q(num(v / ww.units[s1].factor), s1),
                            Q(num(v / ww.units[s2].factor), s2),
                            "value %s in %s and in %s" % (v, s1, s2),
                            "quantity-cross-unit",
                            wit_extra=dict(declarations=planj)))
        cases.append(world_program(chk, plan, subs, wid))
    run_cases(chk, R, cases, preload=("quantity",))


_run_generated = run


def run(chk, R, tier, seed):          # noqa: F811
    _run_generated(chk, R, tier, seed)
    from .. import suitemon
    if suitemon.wanted(tier):
        # the repository's own tests as one more workload (DESIGN 9.7)
        suitemon.suite_stage(chk, R, "C19")
