"""C05 -- quantized types hold the nearest multiple of the quantum, rounded
exactly once with the active default rounding mode."""
from __future__ import annotations

import random
from fractions import Fraction as F

from ..cases import Case, run_cases, world_program, Q, U, V, M, OP
from ..ctl import num, val, is_exc, dec_str, EXACT_TYPES
from ..gen import random_plan, rand_fraction, enc_amount, rand_float_fraction
from ..models import si_table as SI
from ..models import rounding as RM
from ..models import iso4217
from ..models.world import predefined_world, add_money
from ..oracle import brief, check_ctor_events
from .c09 import parse_rate

RULE = ("every producing operation (constructor from each numeric kind and "
        "from strings, *k, k*, /k, +, -, neg, abs, convert, round, quantize, "
        "number*unit, unit/number, product with quantized result type, "
        "money x/ exchange rate) x all DataVolume units, a sample (thorough: "
        "all) of ISO currencies, synthetic quantized types with quanta 1/3, "
        "1/8, 0.05, 7/1000 ... and off-grid unit scales x 8 default rounding "
        "modes, amounts at and beside ties of the quantum; plus every "
        "instance seen by the constructor monitor; non-trivial = exact "
        "result is off the grid; distinct by (world, op, operands, mode)")
ANCHORS = ("Quantity.__new__", "Quantity.__mul__", "Quantity.__truediv__",
           "Quantity.__add__", "Quantity.convert", "Quantity.__round__",
           "Quantity.quantize", "Unit.quantum", "Currency.quantum")

OPS = ["ctor", "ctor", "ctor-str", "ctor-type-str", "mul", "rmul", "div",
       "add", "sub", "neg", "abs", "convert", "round", "quantize", "numunit",
       "unitdiv", "prod", "pow1", "rdiv", "pown"]


def tie_amount(rng, q):
    """amount at / next to a tie of the quantum q"""
    n = rng.randint(-40, 40)
    r = rng.random()
    if r < 0.35:
        return (n + F(1, 2)) * q
    if r < 0.55:
        # a hair beside a tie (or beside a multiple, for the directed
        # modes), from a thousandth down to 10**-29 of the quantum and not
        # always a terminating decimal: rounding through any fixed number
        # of decimals first lands on the tie / multiple itself
        d = F(1, rng.choice([1, 1, 3, 7]) *
              10 ** rng.choice([3, 6, 9, 10, 13, 19, 29]))
        at = n + F(1, 2) if rng.random() < 0.7 else n
        return (at + rng.choice([-1, 1]) * d) * q
    if r < 0.65:
        return n * q
    return rand_fraction(rng, small=rng.random() < 0.7)


def quant_sub(chk, rng, w, wid, mode, plan=None, tvar=None, ops=OPS):
    """-> (steps, judge(obs)); all steps run under default mode `mode`"""
    qunits = [s for s in w.units if w.quantum_of(s) is not None]
    ua = rng.choice(qunits)
    ta = w.units[ua].tname
    same = [u.sym for u in w.units_of(ta) if w.convertible(ua, u.sym)]
    ub = rng.choice(same)
    qa = w.quantum_of(ua)
    fa, fb = w.units[ua].factor, w.units[ub].factor
    op = rng.choice(ops)
    xa = tie_amount(rng, qa)
    xb = tie_amount(rng, w.quantum_of(ub))
    k = rand_fraction(rng, small=True, allow_zero=False)
    body = []
    info = dict(op=op, ua=ua, ub=ub, mode=mode, world=wid)
    expect = None       # function(stored operands) -> (exact, unit)
    if op in ("ctor", "ctor-str", "ctor-type-str"):
        if op == "ctor":
            if rng.random() < 0.15:
                xa = rand_float_fraction(rng)
                e, kind = num(xa, "fl"), "fl"
            else:
                e, kind = enc_amount(rng, xa, ("D", "F", "int", "SD", "s"))
            body.append({"k": "r", "e": Q(e, ua)})
            info["kind"] = kind
        else:
            s = dec_str(xa)
            if s is None:
                s = "%d/%d" % (xa.numerator, xa.denominator)
            txt = "%s %s" % (s, ua)
            if op == "ctor-str":
                body.append({"k": "r", "e": ["c", ["g", "quantity:Quantity"],
                                             [["s", txt]]]})
            else:
                tv = ["a", U(ua), "qty_cls"]
                body.append({"k": "r", "e": ["c", tv, [["s", txt]]]})
        expect = lambda st: (xa, ua)                    # noqa: E731
    else:
        body.append({"id": "a", "k": "a",
                     "e": Q(enc_amount(rng, xa, ("D", "F"))[0], ua)})
        if op == "quantize":
            xb = rng.randint(1, 40) * w.quantum_of(ub) * \
                rng.choice([1, 1, 3, 10, 25])
        if op in ("add", "sub", "quantize"):
            body.append({"id": "b", "k": "b",
                         "e": Q(enc_amount(rng, xb, ("D", "F"))[0], ub)})
        if op == "mul":
            body.append({"k": "r", "e": OP("*", V("a"), num(k))})
            expect = lambda st: (st["a"] * k, ua)       # noqa: E731
        elif op == "rmul":
            body.append({"k": "r", "e": OP("*", num(k), V("a"))})
            expect = lambda st: (st["a"] * k, ua)       # noqa: E731
        elif op == "div":
            body.append({"k": "r", "e": OP("/", V("a"), num(k))})
            expect = lambda st: (st["a"] / k, ua)       # noqa: E731
        elif op == "add":
            body.append({"k": "r", "e": OP("+", V("a"), V("b"))})
            expect = lambda st: (st["a"] + st["b"] * fb / fa, ua)  # noqa
        elif op == "sub":
            body.append({"k": "r", "e": OP("-", V("a"), V("b"))})
            expect = lambda st: (st["a"] - st["b"] * fb / fa, ua)  # noqa
        elif op == "neg":
            body.append({"k": "r", "e": ["un", "neg", V("a")]})
            expect = lambda st: (-st["a"], ua)          # noqa: E731
        elif op == "abs":
            body.append({"k": "r", "e": ["un", "abs", V("a")]})
            expect = lambda st: (abs(st["a"]), ua)      # noqa: E731
        elif op == "convert":
            body.append({"k": "r", "e": M(V("a"), "convert", U(ub))})
            expect = lambda st: (st["a"] * fa / fb, ub)  # noqa: E731
        elif op == "round":
            n = rng.choice([0, 1, 2, 3, -1])
            info["n"] = n
            body.append({"k": "r", "e": ["round", V("a"), n]})
            expect = "round"
        elif op == "quantize":
            if not w.types[ta].has_ref:
                op = info["op"] = "neg"
                body.append({"k": "r", "e": ["un", "neg", V("a")]})
                expect = lambda st: (-st["a"], ua)      # noqa: E731
            else:
                body.append({"k": "r", "e": M(V("a"), "quantize", V("b"))})
                expect = "quantize"
        elif op == "pow1":
            body.append({"k": "r", "e": OP("**", V("a"), ["i", 1])})
            expect = lambda st: (st["a"], ua)           # noqa: E731
        elif op == "numunit":
            body.append({"k": "r", "e": OP("*", num(k), U(ua))})
            expect = lambda st: (k, ua)                 # noqa: E731
        elif op == "unitdiv":
            body.append({"k": "r", "e": OP("/", U(ua), num(k))})
            expect = lambda st: (1 / k, ua)             # noqa: E731
        elif op == "pown":
            # unit ** n evaluated first, then quantity ** n, into a quantized
            # type: the second must still be rounded once
            done = False
            allu = list(w.units)
            rng.shuffle(allu)
            for s1 in allu:
                for n in (2, -1, 3, -2):
                    pred = w.predict_pow(("u", s1), n)
                    if pred["kind"] == "qty" and \
                            w.types[pred["type"]].quantum is not None:
                        x1 = rand_fraction(rng, small=True, allow_zero=False)
                        f1 = w.units[s1].factor
                        first = {"k": "u", "e": OP("**", U(s1), ["i", n])}
                        body = [{"id": "a", "k": "a", "e": Q(num(x1), s1)},
                                {"k": "r", "e": OP("**", V("a"), ["i", n])}]
                        if rng.random() < 0.6:
                            body.insert(0, first)
                        expect = (lambda st, n=n, f1=f1:
                                  ((st["a"] * f1) ** n, None))
                        info.update(s1=s1, n=n)
                        done = True
                        break
                if done:
                    break
            if not done:
                op = info["op"] = "mul"
                body.append({"k": "r", "e": OP("*", V("a"), num(k))})
                expect = lambda st: (st["a"] * k, ua)   # noqa: E731
        elif op == "rdiv":
            # number / unit and number / quantity landing in a quantized type
            done = False
            allu = list(w.units)
            rng.shuffle(allu)
            for s1 in allu:
                pred = w.predict_pow(("u", s1), -1)
                if pred["kind"] == "qty" and \
                        w.types[pred["type"]].quantum is not None:
                    x1 = rand_fraction(rng, small=True, allow_zero=False)
                    f1 = w.units[s1].factor
                    if rng.random() < 0.5:
                        body = [{"k": "r", "e": OP("/", num(k), U(s1))}]
                        expect = lambda st: (k / f1, None)      # noqa: E731
                    else:
                        body = [{"id": "a", "k": "a", "e": Q(num(x1), s1)},
                                {"k": "r", "e": OP("/", num(k), V("a"))}]
                        expect = lambda st: (k / (st["a"] * f1), None)  # noqa
                    info.update(s1=s1)
                    done = True
                    break
            if not done:
                op = info["op"] = "mul"
                body.append({"k": "r", "e": OP("*", V("a"), num(k))})
                expect = lambda st: (st["a"] * k, ua)   # noqa: E731
        elif op == "prod":
            # a product / quotient whose result type is quantized
            done = False
            allu = list(w.units)
            for _ in range(40):
                s1, s2 = rng.choice(allu), rng.choice(allu)
                o = rng.choice("*/")
                pred = w.predict_mul(o, ("q", 1, s1), ("q", 1, s2))
                if pred["kind"] == "qty" and \
                        w.types[pred["type"]].quantum is not None:
                    x1 = rand_fraction(rng, small=True, allow_zero=False)
                    x2 = rand_fraction(rng, small=True, allow_zero=False)
                    body = [{"id": "a", "k": "a", "e": Q(num(x1), s1)},
                            {"id": "b", "k": "b", "e": Q(num(x2), s2)},
                            {"k": "r", "e": OP(o, V("a"), V("b"))}]
                    f1, f2 = w.units[s1].factor, w.units[s2].factor
                    if o == "*":
                        expect = lambda st: (st["a"] * f1 * st["b"] * f2,  # noqa
                                             None)
                    else:
                        expect = lambda st: (st["a"] * f1 / (st["b"] * f2),  # noqa
                                             None)
                    info.update(s1=s1, s2=s2, o=o)
                    done = True
                    break
            if not done:
                op = info["op"] = "mul"
                body.append({"k": "r", "e": OP("*", V("a"), num(k))})
                expect = lambda st: (st["a"] * k, ua)   # noqa: E731
    steps = [{"setmode": mode, "body": body}]

    def judge(obs):
        if not obs or "r" not in obs:
            chk.inconclusive_because("quantized-op case not observed")
            return
        r = obs["r"]
        st = {}
        for name in ("a", "b"):
            if name in obs:
                if obs[name].get("k") != "Q":
                    chk.violation("constructing operand failed: %s" %
                                  brief(obs[name]),
                                  dict(info=info, obs=obs, steps=steps),
                                  "construct")
                    return
                st[name] = val(obs[name])
        wit = dict(info=info, obs=obs, steps=steps)
        if plan is not None:
            wit["declarations"] = plan
        if r.get("k") == "E" and st.get("a") == 0 and \
                op in ("rdiv", "pown") and \
                r["cls"] in ("ZeroDivisionError", "ValueError"):
            # 1 / 0 or 0 ** -n after the operand was rounded to zero
            chk.count("division by a zero amount (control, not judged)")
            return
        if r.get("k") == "E" and r["cls"] == "ZeroDivisionError" and \
                (st.get("b") == 0 or op == "div"):
            chk.count("division by a zero amount (control, not judged)")
            return
        if r.get("k") != "Q":
            chk.violation("%s under %s: no quantity returned: %s" %
                          (op, mode, brief(r)), wit, "op-raises")
            return
        ur = r["u"]
        if ur not in w.units or w.quantum_of(ur) is None:
            chk.violation("%s: result in unexpected unit %s" % (op, ur), wit,
                          "result-unit")
            return
        qr = w.quantum_of(ur)
        got = val(r)
        if expect == "round":
            x = st["a"]
            step = F(1) / F(10) ** info["n"]
            # round() to n decimals: the neighbour it picks is not fixed by
            # the statement (decimalfp applies the default mode), so either
            # neighbouring multiple of 10^-n is accepted
            cands = {RM.round_to(x, step, m) for m in RM.MODES}
            wants = {RM.round_to(y, qr, mode) for y in cands}
            exact = x
        elif expect == "quantize":
            g = st["b"] * fb / fa
            if g == 0:
                return
            y = RM.round_to(st["a"], g, mode)
            wants = {RM.round_to(y, qr, mode)}
            exact = y
        else:
            exact, eu = expect(st)
            if eu is None:
                exact = exact / w.units[ur].factor
            elif eu != ur:
                chk.violation("%s: result unit %s, expected %s" %
                              (op, ur, eu), wit, "result-unit")
                return
            wants = {RM.round_to(exact, qr, mode)}
        offgrid = (F(exact) / qr).denominator != 1
        chk.case((wid, op, ua, ub, str(exact), mode), nontrivial=offgrid)
        chk.count("op|" + op)
        if offgrid:
            tie = RM.is_tie(exact, qr)
            chk.count("mode|%s|%s|%s" % (mode, "tie" if tie else "notie",
                                         "neg" if exact < 0 else "pos"))
        bad = []
        if (got / qr).denominator != 1:
            bad.append("amount %s is not a multiple of the quantum %s" %
                       (got, qr))
        if r["at"] not in EXACT_TYPES:
            bad.append("amount is a %s" % r["at"])
        if got not in wants:
            bad.append("amount %s, expected %s = exact result %s rounded "
                       "once (%s) to the quantum %s" %
                       (got, sorted(wants)[0], exact, mode, qr))
        if bad:
            chk.violation("%s %s under %s: %s" % (op, ur, mode,
                                                  "; ".join(bad)), wit,
                          "rounded-once")
        else:
            chk.sample(dict(info=info, exact=str(exact), got=str(got),
                            quantum=str(qr)))
    return steps, judge


def rate_sub(chk, rng, w, codes, mode):
    a, b = rng.sample(codes, 2)
    qa = w.quantum_of(a)
    x = tie_amount(rng, qa)
    ta = F(rng.randint(1, 10 ** 7), 10 ** rng.randint(1, 6))
    direction = rng.choice(["mul", "rmul", "div"])
    XR = ["g", "quantity.money:ExchangeRate"]
    if direction == "div":
        rate = ["c", XR, [U(b), ["i", 1], U(a), num(ta)]]
        e = OP("/", V("m"), V("x"))
    else:
        rate = ["c", XR, [U(a), ["i", 1], U(b), num(ta)]]
        e = OP("*", V("m"), V("x")) if direction == "mul" else \
            OP("*", V("x"), V("m"))
    steps = [{"setmode": mode, "body": [
        {"id": "m", "k": "m", "e": Q(num(x), a)},
        {"id": "x", "k": "x", "e": rate},
        {"k": "r", "e": e}]}]
    info = dict(op="rate-" + direction, a=a, b=b, mode=mode)

    def judge(obs):
        if not obs or "r" not in obs:
            chk.inconclusive_because("rate case not observed")
            return
        m, xr, r = obs.get("m", {}), parse_rate(obs.get("x")), obs["r"]
        if m.get("k") != "Q" or xr is None:
            chk.count("rate operands not constructed")
            return
        exact = val(m) * (xr["inv"] if direction == "div" else xr["rate"])
        qb = w.quantum_of(b)
        want = RM.round_to(exact, qb, mode)
        chk.case(("rate", a, b, str(exact), mode),
                 nontrivial=(exact / qb).denominator != 1)
        chk.count("op|rate-" + direction)
        if r.get("k") != "Q" or r["t"] != "Money" or r["u"] != b or \
                val(r) != want:
            chk.violation("%s %s x rate %s under %s: got %s, expected %s %s "
                          "(exact %s rounded once)" %
                          (val(m), a, xr["rate"], mode, brief(r), want, b,
                           exact), dict(info=info, obs=obs, steps=steps),
                          "rate-rounding")
    return steps, judge


def converter_program(chk, rng, w, wi):
    """sums / differences of money in two currencies under an active
    MoneyConverter: the other operand is converted and the result must be
    rounded exactly once"""
    MCLS = ["g", "quantity.money:MoneyConverter"]
    MONEY = ["g", "quantity.money:Money"]
    curs = ["EUR", "USD", "JPY", "BHD"]
    base = "EUR"
    rates = {c: rng.choice([F(2), F(4), F(1, 2), F(8), F(5, 4), F(125),
                            F(1, 4)]) for c in curs if c != base}
    pre = [{"e": M(MONEY, "register_currency", ["s", c])} for c in curs]
    pre.append({"id": "mc", "e": ["c", MCLS, [U(base)]]})
    pre.append({"e": M(V("mc"), "update", ["none"],
                       ["l", [["t", [U(c), num(r), ["i", 1]]]
                              for c, r in rates.items()]])})
    body = []
    subs = []
    for j in range(24):
        mode = RM.MODES[(wi + j) % 8]
        a, b = rng.sample(curs, 2)
        qa, qb = w.quantum_of(a), w.quantum_of(b)
        xa = (2 * rng.randint(-200, 200) + 1) * qa
        xb = (2 * rng.randint(-200, 200) + 1) * qb
        op = rng.choice("+-")
        k = "m%d." % j
        body.append({"setmode": mode, "body": [
            {"id": "a", "k": k + "a", "e": Q(num(xa), a)},
            {"id": "b", "k": k + "b", "e": Q(num(xb), b)},
            {"k": k + "x", "e": M(V("mc"), "get_rate", U(b), U(a))},
            {"k": k + "r", "e": OP(op, V("a"), V("b"))}]})
        subs.append((k, a, b, op, mode))
    steps = pre + [{"with": V("mc"), "body": body, "k": "with"}]

    def judge(obs, rec, case):
        if obs is None:
            chk.inconclusive_because("converter program died")
            return
        for k, a, b, op, mode in subs:
            xr = parse_rate(obs.get(k + "x"))
            ao, bo, r = obs.get(k + "a", {}), obs.get(k + "b", {}), \
                obs.get(k + "r", {})
            if xr is None or ao.get("k") != "Q" or bo.get("k") != "Q":
                chk.count("converter operands not constructed")
                continue
            conv = val(bo) * xr["rate"]
            exact = val(ao) + conv if op == "+" else val(ao) - conv
            qa = w.quantum_of(a)
            want = RM.round_to(exact, qa, mode)
            off = (exact / qa).denominator != 1
            chk.case(("conv-add", a, b, op, str(exact), mode), nontrivial=off)
            chk.count("op|converter-" + ("add" if op == "+" else "sub"))
            if off and RM.is_tie(exact, qa):
                chk.count("converter sums at an exact tie")
            if r.get("k") != "Q" or r["u"] != a or val(r) != want:
                chk.violation(
                    "%s %s %s %s %s under %s with an active converter "
                    "(reported rate %s): got %s, expected %s %s = exact %s "
                    "rounded once" % (val(ao), a, op, val(bo), b, mode,
                                      xr["rate"], brief(r), want, a, exact),
                    dict(steps=steps, at=k, obs={kk: v for kk, v in
                                                 obs.items()
                                                 if kk.startswith(k)}),
                    "rounded-once")
    return Case(steps, judge, isolate=True)


def run(chk, R, tier, seed):
    rng = random.Random("C05-%d" % seed)
    for mode in RM.MODES:
        for sign in ("pos", "neg"):
            chk.require("mode|%s|tie|%s" % (mode, sign))
            chk.require("mode|%s|notie|%s" % (mode, sign))
    for op in set(OPS) | {"rate-mul", "rate-div", "rate-rmul",
                          "converter-add", "converter-sub"}:
        chk.require("op|" + op)
    chk.require("converter sums at an exact tie")
    chk.require("ctor events of quantized types", 1000)
    chk.require("worlds")
    table, _ = iso4217.load()
    codes = sorted(table)
    if tier == "quick":
        sample = ["EUR", "JPY", "BHD", "CLF", "USD", "KWD", "UYW", "ISK"]
        sample += rng.sample([c for c in codes if c not in sample], 4)
    else:
        sample = codes
    w = predefined_world({c: table[c][1] for c in sample})
    prelude = [{"e": M(["g", "quantity.money:Money"], "register_currency",
                       ["s", c])} for c in sample]
    wrap = lambda jd: (lambda obs, rec, case: jd(obs))      # noqa: E731
    seen = set()

    def on_program(rec, cs):
        check_ctor_events(chk, w, rec, "predefined")

    n = 10000 if tier == "quick" else 100000
    done = 0
    while done < n:
        m = min(n - done, 25000)
        cases = []
        for i in range(m):
            mode = RM.MODES[i % 8]
            if rng.random() < 0.12:
                st, jd = rate_sub(chk, rng, w, sample, mode)
            else:
                ops = OPS if rng.random() < 0.8 else \
                    ["ctor", "mul", "div", "add", "convert"]
                st, jd = quant_sub(chk, rng, w, "predefined", mode,
                                   ops=[o for o in ops if o != "prod"])
            cases.append(Case(st, wrap(jd)))
        run_cases(chk, R, cases, per_program=100, prelude=prelude,
                  on_program=on_program)
        done += m
    wm = predefined_world({"EUR": 2, "USD": 2, "JPY": 0, "BHD": 3})
    run_cases(chk, R, [converter_program(chk, rng, wm, i)
                       for i in range(60 if tier == "quick" else 1500)])
    nw = 100 if tier == "quick" else 1200
    cases = []
    for wi in range(nw):
        plan, ww = random_plan(rng, noref=False, force_quantum=True,
                               power_type=(wi % 2 == 0))
        if not any(ww.quantum_of(s) is not None for s in ww.units):
            continue
        planj = [d.to_json() for d in plan]
        wid = "world%d" % wi
        subs = [quant_sub(chk, rng, ww, wid, RM.MODES[(wi + j) % 8], planj)
                for j in range(24)]
        c = world_program(chk, plan, subs, wid)
        c.info = ww
        cases.append(c)

    def on_world(rec, cs):
        for c in cs:
            if isinstance(c.info, type(w)):
                check_ctor_events(chk, c.info, rec, "synthetic")
    run_cases(chk, R, cases, preload=("quantity",), on_program=on_world)


_run_generated = run


def run(chk, R, tier, seed):          # noqa: F811
    _run_generated(chk, R, tier, seed)
    from .. import suitemon
    if suitemon.wanted(tier):
        # the repository's own tests as one more workload (DESIGN 9.7)
        suitemon.suite_stage(chk, R, "C05")
