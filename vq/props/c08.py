"""C08 -- money never mixes currencies implicitly and follows ISO 4217."""
from __future__ import annotations

import random
from fractions import Fraction as F

from ..cases import Case, run_cases, Q, U, V, M, OP
from ..ctl import num, val, is_exc, dec_str, EXACT_TYPES
from ..gen import rand_fraction, enc_amount
from ..models import iso4217
from ..models import rounding as RM
from ..oracle import brief

RULE = ("exhaustive over the bundled ISO 4217 table (every entry: idempotent "
        "registration, name, smallest fraction, rounding) and over all "
        "ordered pairs of distinct currencies for + and convert; sampled "
        "pairs for the other operators; same-currency arithmetic; "
        "user-declared currencies; unknown codes; non-trivial = every case; "
        "distinct by (check, currencies, operator, amounts)")
ANCHORS = ("MoneyMeta.register_currency", "MoneyMeta.new_unit",
           "Currency.quantum", "get_currency_info")

MONEY = ["g", "quantity.money:Money"]
MIX_ERR = ["+", "-", "/", "<", "<=", ">", ">="]


def reg(code):
    return M(MONEY, "register_currency", ["s", code])


def run(chk, R, tier, seed):
    rng = random.Random("C08-%d" % seed)
    table, excluded = iso4217.load()
    codes = sorted(table)
    chk.extra["iso_entries"] = len(table)
    chk.require("iso entries checked", len(table))
    for m in (0, 2, 3, 4):
        chk.require("minor units %d" % m)
    for op in MIX_ERR + ["==", "!=", "*", "convert", "parse-money",
                         "parse-generic", "q/u", "u/u", "u*u", "q**2"]:
        chk.require("mixed|" + op)
    chk.require("unknown codes rejected")
    chk.require("user currencies")
    chk.require("same-currency ops")
    prelude = [{"e": reg(c)} for c in codes]
    cases = []

    # ---- every entry of the table
    for code in codes:
        name, minor = table[code]
        x = F(rng.randint(-10 ** 9, 10 ** 9), 10 ** 7) + F(5, 10 ** (minor + 1))
        steps = [{"id": "r1", "k": "r1", "e": reg(code)},
                 {"id": "r2", "k": "r2", "e": reg(code)},
                 {"k": "same", "e": ["is", V("r1"), V("r2")]},
                 {"k": "name", "e": ["a", V("r1"), "name"]},
                 {"k": "sf", "e": ["a", V("r1"), "smallest_fraction"]},
                 {"k": "unit", "e": ["is", U(code), V("r1")]},
                 {"k": "iso", "e": ["a", V("r1"), "iso_code"]},
                 {"k": "m", "e": ["c", MONEY, [num(x), V("r1")]]},
                 {"k": "ms", "e": ["c", MONEY, [["s", "1.23456789 " + code]]]},
                 {"k": "in", "e": ["in", ["s", code], MONEY]}]

        def judge(obs, rec, case, code=code, name=name, minor=minor, x=x,
                  steps=steps):
            if not obs or "r1" not in obs:
                chk.inconclusive_because("entry %s not observed" % code)
                return
            chk.case(("entry", code))
            chk.count("iso entries checked")
            chk.count("minor units %d" % minor)
            bad = []
            r1, r2 = obs["r1"], obs["r2"]
            if r1.get("k") != "U" or r1.get("sym") != code or \
                    r1.get("t") != "Money":
                bad.append("registration returned %s" % brief(r1))
            if r2.get("uid") != r1.get("uid") or \
                    obs.get("same", {}).get("v") is not True:
                bad.append("second registration returned another object")
            if obs.get("name", {}).get("v") != name:
                bad.append("name %r, table says %r" %
                           (obs.get("name", {}).get("v"), name))
            sf = obs.get("sf", {})
            frac = F(1, 10 ** minor)
            if sf.get("k") != "N" or val(sf) != frac:
                bad.append("smallest fraction %s, expected 10^-%d" %
                           (brief(sf), minor))
            if obs.get("unit", {}).get("v") is not True:
                bad.append("Unit(code) is not the registered currency")
            if obs.get("iso", {}).get("v") != code:
                bad.append("iso_code mismatch")
            if obs.get("in", {}).get("v") is not True:
                bad.append("code not listed by Money")
            m = obs.get("m", {})
            want = RM.round_to(x, frac, RM.DEFAULT_MODE)
            if m.get("k") != "Q" or m["t"] != "Money" or m["u"] != code or \
                    val(m) != want:
                bad.append("Money(%s, %s) = %s, expected %s" %
                           (x, code, brief(m), want))
            ms = obs.get("ms", {})
            want2 = RM.round_to(F("1.23456789"), frac, RM.DEFAULT_MODE)
            if ms.get("k") != "Q" or ms["u"] != code or val(ms) != want2:
                bad.append("Money('1.23456789 %s') = %s, expected %s" %
                           (code, brief(ms), want2))
            if bad:
                chk.violation("%s: %s" % (code, "; ".join(bad)),
                              dict(obs=obs, steps=steps), "iso-entry")
            else:
                chk.sample(dict(code=code, name=name, minor=minor,
                                rounded=str(want)))
        cases.append(Case(steps, judge))
    chk.exhaustive["ISO 4217 table entries"] = True

    # ---- mixed currencies
    def mixed(a, b, op, xa, xb):
        if op == "convert":
            e = M(Q(num(xa), a), "convert", U(b))
        elif op in ("q/u", "u/q", "u/u"):
            # the same refusal one level down: money / currency,
            # currency / money, currency / currency
            e = OP("/", Q(num(xa), a) if op[0] == "q" else U(a),
                   Q(num(xb if xb else F(1)), b) if op[2] == "q" else U(b))
        elif op in ("u*u", "q*u", "q**2", "u**2"):
            e = {"u*u": OP("*", U(a), U(b)),
                 "q*u": OP("*", Q(num(xa), a), U(b)),
                 "q**2": OP("**", Q(num(xa), a), ["i", 2]),
                 "u**2": OP("**", U(a), ["i", 2])}[op]
        elif op in ("parse-money", "parse-generic"):
            # a string naming one currency with another one given as unit is
            # a conversion, too
            e = ["c", ["g", "quantity.money:Money" if op == "parse-money"
                       else "quantity:Quantity"],
                 [["s", "%s %s" % (dec_str(xa), a)], U(b)]]
        else:
            e = OP(op, Q(num(xa), a), Q(num(xb), b))
        steps = [{"k": "r", "e": e}]

        def judge(obs, rec, case):
            r = (obs or {}).get("r")
            if r is None:
                chk.inconclusive_because("mixed case not observed")
                return
            chk.case(("mixed", a, b, op, str(xa), str(xb)))
            chk.count("mixed|" + op)
            if op in MIX_ERR or op == "convert" or op.startswith("parse-") \
                    or op in ("q/u", "u/q", "u/u"):
                ok = is_exc(r, "UnitConversionError")
                want = "UnitConversionError"
            elif op == "==":
                ok = r.get("k") == "bool" and r["v"] is False
                want = "False"
            elif op == "!=":
                ok = r.get("k") == "bool" and r["v"] is True
                want = "True"
            else:
                ok = is_exc(r, "UndefinedResultError")
                want = "UndefinedResultError"
            if not ok:
                chk.violation("(%s %s) %s (%s %s): expected %s, got %s" %
                              (xa, a, op, xb, b, want, brief(r)),
                              dict(obs=obs, steps=steps), "mixing|" + op)
        return Case(steps, judge)

    amts = [F(3, 2), F(2), F(0), F(-7, 4), F(10 ** 6)]
    for a in codes:
        for b in codes:
            if a == b:
                continue
            xa, xb = rng.choice(amts), rng.choice(amts)
            ops = ["+", "convert"]
            if tier == "thorough":
                ops = MIX_ERR + ["convert", "==", "!=", "*", "parse-money",
                                 "parse-generic", "q/u", "u/q", "u/u", "u*u",
                                 "q*u", "q**2", "u**2"]
            for op in ops:
                cases.append(mixed(a, b, op, xa, xb))
    chk.exhaustive["ordered pairs of distinct currencies x {+, convert}"] = True
    for _ in range(2500 if tier == "quick" else 0):
        a, b = rng.sample(codes, 2)
        for op in rng.sample(MIX_ERR[1:] + ["==", "!=", "*", "parse-money",
                                            "parse-generic", "q/u", "u/q",
                                            "u/u", "u*u", "q*u", "q**2",
                                            "u**2"], 4):
            cases.append(mixed(a, b, op, rng.choice(amts), rng.choice(amts)))

    # ---- same currency
    def same(code):
        minor = table[code][1]
        frac = F(1, 10 ** minor)
        xa = RM.round_to(rand_fraction(rng, small=True), frac, "ROUND_FLOOR")
        xb = RM.round_to(rand_fraction(rng, small=True, allow_zero=False),
                         frac, "ROUND_FLOOR") or frac
        k = rand_fraction(rng, small=True, allow_zero=False)
        steps = [{"id": "a", "e": Q(num(xa), code)},
                 {"id": "b", "e": Q(num(xb), code)},
                 {"k": "add", "e": OP("+", V("a"), V("b"))},
                 {"k": "sub", "e": OP("-", V("a"), V("b"))},
                 {"k": "mul", "e": OP("*", V("a"), num(k))},
                 {"k": "div", "e": OP("/", V("a"), num(k))},
                 {"k": "ratio", "e": OP("/", V("a"), V("b"))},
                 {"k": "sq", "e": OP("*", V("a"), V("b"))},
                 {"k": "lt", "e": OP("<", V("a"), V("b"))},
                 {"k": "eq", "e": OP("==", V("a"), Q(num(xa), code))}]

        def judge(obs, rec, case):
            if not obs:
                chk.inconclusive_because("same-currency case not observed")
                return
            chk.case(("same", code, str(xa), str(xb), str(k)))
            chk.count("same-currency ops")
            bad = []

            def money(key, want):
                r = obs.get(key, {})
                if r.get("k") != "Q" or r["t"] != "Money" or \
                        r["u"] != code or val(r) != want:
                    bad.append("%s: %s, expected %s %s" %
                               (key, brief(r), want, code))
            money("add", xa + xb)
            money("sub", xa - xb)
            money("mul", RM.round_to(xa * k, frac, RM.DEFAULT_MODE))
            money("div", RM.round_to(xa / k, frac, RM.DEFAULT_MODE))
            r = obs.get("ratio", {})
            if r.get("k") != "N" or r.get("at") not in EXACT_TYPES or \
                    val(r) != xa / xb:
                bad.append("money/money: %s, expected %s" %
                           (brief(r), xa / xb))
            if not is_exc(obs.get("sq"), "UndefinedResultError"):
                bad.append("money*money: %s" % brief(obs.get("sq")))
            if obs.get("lt", {}).get("v") is not (xa < xb):
                bad.append("<: %s" % brief(obs.get("lt")))
            if obs.get("eq", {}).get("v") is not True:
                bad.append("==: %s" % brief(obs.get("eq")))
            if bad:
                chk.violation("%s: %s" % (code, "; ".join(bad)),
                              dict(obs=obs, steps=steps), "same-currency")
        return Case(steps, judge)

    for code in codes:
        cases.append(same(code))

    # ---- unknown codes
    unknown = excluded + ["eur", "usd", "ABC", "", "EURO", "XX", "€", "ZZZ",
                          "Eur", " EUR",
                          # symbols of units of other quantity types
                          "kg", "m", "J", "B", "°C", "km/h", "kWh"]
    for _ in range(40):
        c = "".join(rng.choice("ABCDEFGHIJKLMNOPQRSTUVWXYZ") for _ in range(3))
        if c not in table:
            unknown.append(c)
    for code in unknown:
        steps = [{"k": "r", "e": reg(code)},
                 {"k": "u", "e": U(code)}]

        def judge(obs, rec, case, code=code, steps=steps):
            r = (obs or {}).get("r")
            if r is None:
                chk.inconclusive_because("unknown-code case not observed")
                return
            chk.case(("unknown", code))
            chk.count("unknown codes rejected")
            if not is_exc(r, "ValueError"):
                chk.violation("register_currency(%r): expected ValueError, "
                              "got %s" % (code, brief(r)),
                              dict(obs=obs, steps=steps), "unknown-code")
            elif code in ("kg", "m", "J", "B", "°C", "km/h", "kWh"):
                chk.count("symbols of other types' units rejected as codes")
                u = obs.get("u", {})
                if u.get("k") != "U" or u.get("t") == "Money":
                    chk.violation("after register_currency(%r) was refused, "
                                  "Unit(%r) is %s" % (code, code, brief(u)),
                                  dict(obs=obs, steps=steps),
                                  "unknown-code-trace")
            elif not is_exc(obs.get("u"), "ValueError"):
                chk.violation("rejected code %r is a known unit afterwards" %
                              code, dict(obs=obs, steps=steps),
                              "unknown-code-trace")
        cases.append(Case(steps, judge))

    # ---- near misses of table codes, tried while the real code is NOT
    # registered yet (in a fresh interpreter): other case, blanks
    fresh_cases = []
    for code in rng.sample(sorted(table), 25 if tier == "quick" else 150):
        near = rng.choice([code.lower(), code.capitalize(), " " + code,
                           code + " ", code[:2] + code[2].lower()])
        steps = [{"k": "r", "e": reg(near)},
                 {"k": "u1", "e": U(near)},
                 {"k": "u2", "e": U(code)},
                 {"k": "r2", "e": reg(code)},
                 {"k": "r3", "e": reg(near)}]

        def judge(obs, rec, case, code=code, near=near, steps=steps):
            if obs is None or "r" not in obs:
                chk.inconclusive_because("near-miss code case not observed")
                return
            chk.case(("near-miss code", near))
            chk.count("near misses of table codes rejected")
            bad = []
            for k in ("r", "r3"):
                if not is_exc(obs.get(k), "ValueError"):
                    bad.append("register_currency(%r) gives %s" %
                               (near, brief(obs.get(k))))
            for k, what in (("u1", near), ("u2", code)):
                if not is_exc(obs.get(k), "ValueError"):
                    bad.append("Unit(%r) is known after the rejected "
                               "registration of %r" % (what, near))
            r2 = obs.get("r2", {})
            if r2.get("k") != "U" or r2.get("sym") != code:
                bad.append("register_currency(%r) afterwards gives %s" %
                           (code, brief(r2)))
            if bad:
                chk.violation("; ".join(bad[:3]),
                              dict(obs=obs, steps=steps), "unknown-code")
        fresh_cases.append(Case(steps, judge, isolate=True))
    chk.require("near misses of table codes rejected")

    # ---- "with no money converter active": also after a converter WAS
    # active and its with-block has been left, normally or by an exception
    MC = ["g", "quantity.money:MoneyConverter"]
    for j in range(8 if tier == "quick" else 60):
        a, b = rng.sample(["EUR", "USD", "GBP", "JPY", "CHF"], 2)
        leave = rng.choice(["normal", "exc", "exc"])
        steps = [{"e": reg(a)}, {"e": reg(b)},
                 {"id": "mc", "e": ["c", MC, [U(a)]]},
                 {"e": M(V("mc"), "update", ["none"],
                         ["l", [["t", [U(b), ["D", "1.25"], ["i", 1]]]]])},
                 {"with": V("mc"), "k": "with",
                  "body": [{"k": "in", "e": OP("+", Q(["i", 10], a),
                                               Q(["i", 10], b))}],
                  "raise": "marker" if leave == "exc" else None},
                 {"k": "add", "e": OP("+", Q(["i", 10], a), Q(["i", 10], b))},
                 {"k": "lt", "e": OP("<", Q(["i", 10], a), Q(["i", 10], b))},
                 {"k": "conv", "e": M(Q(["i", 10], a), "convert", U(b))},
                 {"k": "eq", "e": OP("==", Q(["i", 8], a), Q(["i", 10], b))}]

        def judge(obs, rec, case, a=a, b=b, leave=leave, steps=steps):
            if obs is None or "add" not in obs:
                chk.inconclusive_because("after-converter case not observed")
                return
            if obs.get("in", {}).get("k") != "Q":
                chk.count("converter block did not convert (C12's)")
                return
            chk.case(("after converter", a, b, leave))
            chk.count("mixing after a converter block was left|" + leave)
            bad = []
            for k in ("add", "lt", "conv"):
                if not is_exc(obs.get(k), "UnitConversionError"):
                    bad.append("%s gives %s" % (k, brief(obs.get(k))))
            if obs.get("eq", {}).get("v") is not False:
                bad.append("8 %s == 10 %s is %s" % (a, b,
                                                    brief(obs.get("eq"))))
            if bad:
                chk.violation("after a converter block was left (%s), %s and "
                              "%s still mix: %s" % (leave, a, b,
                                                    "; ".join(bad)),
                              dict(obs=obs, steps=steps), "mixing|after-with")
        fresh_cases.append(Case(steps, judge, isolate=True))
    chk.require("mixing after a converter block was left|exc")

    # ---- the same statements for a subclass of Money (its own currencies;
    # in a fresh interpreter, so that no code is taken yet)
    for j in range(6 if tier == "quick" else 40):
        c1, c2 = rng.sample(codes, 2)
        (n1, m1), (n2, m2) = table[c1], table[c2]
        x = F(rng.randint(1, 10 ** 9), 10 ** 7) + F(5, 10 ** (m1 + 1))
        CASH = V("Cash")
        steps = [{"cls": {"name": "Cash", "base": MONEY, "kw": {}},
                  "id": "Cash", "k": "cls"},
                 {"id": "r1", "k": "r1", "e": M(CASH, "register_currency",
                                               ["s", c1])},
                 {"id": "r2", "k": "r2", "e": M(CASH, "register_currency",
                                               ["s", c1])},
                 {"id": "o", "k": "o", "e": M(CASH, "register_currency",
                                             ["s", c2])},
                 {"k": "same", "e": ["is", V("r1"), V("r2")]},
                 {"k": "name", "e": ["a", V("r1"), "name"]},
                 {"k": "sf", "e": ["a", V("r1"), "smallest_fraction"]},
                 {"k": "m", "e": ["c", CASH, [num(x), V("r1")]]},
                 {"k": "add", "e": OP("+", ["c", CASH, [["i", 5], V("r1")]],
                                      ["c", CASH, [["i", 5], V("o")]])},
                 {"k": "eq", "e": OP("==", ["c", CASH, [["i", 5], V("r1")]],
                                     ["c", CASH, [["i", 5], V("o")]])},
                 {"k": "bad", "e": M(CASH, "register_currency",
                                     ["s", "ZZZ"])}]

        def judge(obs, rec, case, c1=c1, n1=n1, m1=m1, x=x, steps=steps):
            if obs is None or "r1" not in obs:
                chk.inconclusive_because("Money subclass case not observed")
                return
            if obs.get("cls", {}).get("k") == "E":
                chk.count("subclass of Money not declarable")
                return
            chk.case(("money subclass", c1))
            chk.count("entries registered in a subclass of Money")
            bad = []
            r1 = obs["r1"]
            if r1.get("k") != "U" or r1.get("sym") != c1 or \
                    r1.get("t") != "Cash" or r1.get("ucls") != "Currency":
                bad.append("registration returned %s" % brief(r1))
            if obs.get("same", {}).get("v") is not True:
                bad.append("second registration returned another object")
            if obs.get("name", {}).get("v") != n1:
                bad.append("name %r, table says %r" %
                           (obs.get("name", {}).get("v"), n1))
            sf = obs.get("sf", {})
            if sf.get("k") != "N" or val(sf) != F(1, 10 ** m1):
                bad.append("smallest fraction %s, expected 10^-%d" %
                           (brief(sf), m1))
            m = obs.get("m", {})
            want = RM.round_to(x, F(1, 10 ** m1), RM.DEFAULT_MODE)
            if m.get("k") != "Q" or m["t"] != "Cash" or val(m) != want:
                bad.append("Cash(%s, %s) = %s, expected %s" %
                           (x, c1, brief(m), want))
            if not is_exc(obs.get("add"), "UnitConversionError"):
                bad.append("two currencies added: %s" % brief(obs.get("add")))
            if obs.get("eq", {}).get("v") is not False:
                bad.append("two currencies equal: %s" % brief(obs.get("eq")))
            if not is_exc(obs.get("bad"), "ValueError"):
                bad.append("unknown code accepted: %s" %
                           brief(obs.get("bad")))
            if bad:
                chk.violation("Cash(Money), %s: %s" % (c1, "; ".join(bad)),
                              dict(obs=obs, steps=steps), "iso-entry")
        fresh_cases.append(Case(steps, judge, isolate=True))
    chk.require("entries registered in a subclass of Money")

    # ---- user-declared currencies
    fracs = [F(1, 20), F(1, 4), F(1, 2), F(1, 1000), F(1, 8), F(1, 5),
             F(1, 100), F(1, 10 ** 6)]
    for i in range(60 if tier == "quick" else 400):
        sym = "U%d_%d" % (seed, i)
        form = rng.choice(["minor", "frac", "default", "both"])
        kw = {}
        if form == "minor":
            minor = rng.choice([0, 0, 1, 2, 3, 4, 6])
            kw["minor_unit"] = ["i", minor]
            frac = F(1, 10 ** minor)
        elif form == "frac":
            frac = rng.choice(fracs)
            kw["smallest_fraction"] = rng.choice(
                [num(frac, "D"), num(frac, "s"), num(frac, "F")])
        elif form == "both":
            minor, frac = rng.choice([(0, F(1)), (1, F(1, 10)), (2, F(1, 100)),
                                      (3, F(1, 1000)), (2, F(5, 100)),
                                      (2, F(25, 100)), (1, F(5, 10)),
                                      (3, F(5, 1000)), (2, F(20, 100))])
            kw["minor_unit"] = ["i", minor]
            kw["smallest_fraction"] = ["D", "1"] if frac == 1 else \
                rng.choice([num(frac, "D"), num(frac, "s")])
            if frac == F(20, 100):
                # '0.20' has precision 2 and divides 1
                kw["smallest_fraction"] = ["s", "0.20"]
            if minor == 0:
                # Decimal(1).precision == 0 fits minor_unit 0
                pass
        else:
            frac = F(1, 100)
        x = rand_fraction(rng) if rng.random() < 0.5 else \
            (rng.randint(-999, 999) + F(1, 2)) * frac
        steps = [{"id": "c", "k": "c",
                  "e": ["m", MONEY, "new_unit", [["s", sym], ["s", "n" + sym]],
                        kw]},
                 {"k": "sf", "e": ["a", V("c"), "smallest_fraction"]},
                 {"k": "m", "e": ["c", MONEY, [num(x), V("c")]]},
                 {"k": "u", "e": ["is", U(sym), V("c")]}]

        def judge(obs, rec, case, sym=sym, frac=frac, x=x, steps=steps,
                  form=form):
            if not obs or "c" not in obs:
                chk.inconclusive_because("user currency not observed")
                return
            chk.case(("user", form, str(frac), str(x)))
            chk.count("user currencies")
            bad = []
            c = obs["c"]
            if c.get("k") != "U" or c.get("t") != "Money":
                bad.append("new_unit returned %s" % brief(c))
            else:
                sf = obs.get("sf", {})
                if sf.get("k") != "N" or val(sf) != frac:
                    bad.append("smallest fraction %s, expected %s" %
                               (brief(sf), frac))
                m = obs.get("m", {})
                want = RM.round_to(x, frac, RM.DEFAULT_MODE)
                if m.get("k") != "Q" or val(m) != want or m["u"] != sym:
                    bad.append("Money(%s) = %s, expected %s" %
                               (x, brief(m), want))
                if obs.get("u", {}).get("v") is not True:
                    bad.append("Unit(sym) is not the new currency")
            if bad:
                chk.violation("user currency %s (%s): %s" %
                              (sym, form, "; ".join(bad)),
                              dict(obs=obs, steps=steps), "user-currency")
        cases.append(Case(steps, judge))
    rng.shuffle(cases)
    run_cases(chk, R, cases, per_program=400, prelude=prelude)
    run_cases(chk, R, fresh_cases)
