"""Native tier of C01: the same conversion programs under the as-installed C
back end of decimalfp, crash-isolated (one forked child per program), compared
record by record with the pure-Python run -- DESIGN.md section 3.

A program is *hazard-predicted* iff, in the pure-Python run, it performed a
true division whose dividend has exactly nine fractional digits and whose
divisor is integral with precision 0 (the trigger of the known defect in
libfpdec's fpdec_div_abs_shint_by_shint; deliberately wider than the C
condition).  Divergence or a crash on a predicted program is the known
mechanism `decimalfp-native-div-prec9`; on any other program it is a
violation the known-findings file does not list.
"""
from __future__ import annotations

from fractions import Fraction as F

from ..cases import Case, run_cases, Q, U, V, M, OP
from ..ctl import Runner, num, val
from ..models import si_table as SI
from ..replay import strip

MECH = "decimalfp-native-div-prec9"


def programs(rng, tier):
    out = []
    types = [t for t in SI.LINEAR_TYPES if t not in SI.QUANTUM]
    amounts = [(F(5), "D"), (F(5, 2), "D"), (F(7, 3), "F"),
               (F(123456789, 10 ** 9), "D"), (F(1, 10 ** 9), "D")]
    if tier == "thorough":
        amounts += [(F(-987654321, 10 ** 9), "D"), (F(10 ** 12 + 1, 10 ** 9),
                                                    "D"), (F(1, 3), "F")]
    for tname in types:
        us = SI.units_of(tname)
        for s1 in us:
            for s2 in us:
                if s1 == s2:
                    continue
                for j, (x, kind) in enumerate(amounts):
                    if tier == "quick" and j != 1 and rng.random() > 0.04:
                        continue
                    steps = [{"id": "q", "k": "q", "e": Q(num(x, kind), s1)},
                             {"k": "r", "e": M(V("q"), "convert", U(s2))},
                             {"k": "d1", "e": OP("/", V("q"), ["i", 1])},
                             {"k": "d3", "e": OP("/", V("q"), ["i", 3])},
                             {"k": "eq", "e": OP("==", M(V("q"), "convert",
                                                         U(s2)), V("q"))}]
                    out.append((steps, "%s %s -> %s" % (x, s1, s2)))
    return out


def run(chk, R, tier, seed, rng):
    progs = programs(rng, tier)
    # hazard flags need the division logger: separate pure run with divlog
    Rp = Runner(native=False, accel=True, reach=False)
    Rn = Runner(native=True, accel=False, reach=False)
    try:
        res_p = _run(Rp, progs, divlog=True)
        res_n = _run(Rn, progs, divlog=False)
        chk.extra["native_backend"] = Rn.meta.get("backend")
    finally:
        Rp.close()
        Rn.close()
    if Rn.meta.get("backend") != "native":
        chk.extra["native_tier"] = "native back end not available: skipped"
        return
    predicted = diverged_pred = diverged_unpred = clean = 0
    for i, (steps, desc) in enumerate(progs):
        rp, rn = res_p.get(i), res_n.get(i)
        if rp is None or rp.get("died"):
            chk.inconclusive_because("native tier: pure-Python run of %s "
                                     "failed" % desc)
            continue
        hazard = rp.get("hazard", 0) > 0
        predicted += hazard
        chk.case(("native", desc), nontrivial=True)
        same = rn is not None and not rn.get("died") and \
            strip(rn["obs"]) == strip(rp["obs"])
        if same:
            clean += 1
            continue
        what = ("native decimalfp back end: %s: %s" % (
            desc, ("process died (%s)" % rn.get("died")) if rn is None or
            rn.get("died") else "observations differ from the pure-Python "
            "back end: %s vs %s" % (_brief(rn["obs"]), _brief(rp["obs"]))))
        if hazard:
            diverged_pred += 1
            chk.violation(what, dict(steps=steps, native=rn and rn.get("obs"),
                                     pure=rp["obs"], hazard=True), MECH)
        else:
            diverged_unpred += 1
            chk.violation(what + " (NOT hazard-predicted)",
                          dict(steps=steps, native=rn and rn.get("obs"),
                               pure=rp["obs"], hazard=False),
                          "native-divergence-unpredicted")
    chk.extra["native_tier"] = dict(
        programs=len(progs), hazard_predicted=predicted,
        diverged_predicted=diverged_pred,
        diverged_unpredicted=diverged_unpred, identical=clean)
    chk.count("native tier programs", len(progs))
    chk.count("native tier hazard-predicted programs", predicted)


def _run(R, progs, divlog):
    programs_ = [{"pid": i, "isolate": True, "steps": st}
                 for i, (st, _) in enumerate(progs)]
    return R.run(programs_, prog_timeout=20, divlog=divlog, timeout=900)


def _brief(obs):
    out = {}
    for k, v in obs.items():
        if v.get("k") in ("Q", "N") and v.get("a"):
            a = v["a"]
            out[k] = "%s/%s" % (str(a[0])[:24], str(a[1])[:24])
        else:
            out[k] = v.get("cls") or v.get("v") or v.get("k")
    return out
