"""Native (as-installed C back end of decimalfp) tier of C01 -- see DESIGN 3."""


def run(chk, R, tier, seed, rng):
    chk.extra["native_tier"] = "not built yet"
