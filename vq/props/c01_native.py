"""Native tier of C01: the same conversion programs under the as-installed C
back end of decimalfp, crash-isolated (one forked child per program), compared
record by record with the pure-Python run -- DESIGN.md section 3.

A program is *hazard-predicted* iff, in the pure-Python run, it performed a
true division whose dividend has exactly nine fractional digits and whose
divisor is integral with precision 0 (the trigger of the known defect in
libfpdec's fpdec_div_abs_shint_by_shint; deliberately wider than the C
condition).  Divergence or a crash on a predicted program is the known
mechanism `decimalfp-native-div-prec9`; on any other program it is a
violation the known-findings file does not list.
"""
from __future__ import annotations

from fractions import Fraction as F

from ..cases import Case, run_cases, Q, U, V, M, OP
from ..ctl import Runner, num, val
from ..models import si_table as SI
from ..replay import strip

MECH = "decimalfp-native-div-prec9"


def programs(rng, tier):
    out = []
    types = [t for t in SI.LINEAR_TYPES if t not in SI.QUANTUM]
    amounts = [(F(5), "D"), (F(5, 2), "D"), (F(7, 3), "F"),
               (F(123456789, 10 ** 9), "D"), (F(1, 10 ** 9), "D")]
    if tier == "thorough":
        amounts += [(F(-987654321, 10 ** 9), "D"), (F(10 ** 12 + 1, 10 ** 9),
                                                    "D"), (F(1, 3), "F")]
    for tname in types:
        us = SI.units_of(tname)
        for s1 in us:
            for s2 in us:
                if s1 == s2:
                    continue
                for j, (x, kind) in enumerate(amounts):
                    if tier == "quick" and j != 1 and rng.random() > 0.04:
                        continue
                    steps = [{"id": "q", "k": "q", "e": Q(num(x, kind), s1)},
                             {"k": "r", "e": M(V("q"), "convert", U(s2))},
                             {"k": "d1", "e": OP("/", V("q"), ["i", 1])},
                             {"k": "d3", "e": OP("/", V("q"), ["i", 3])},
                             {"k": "eq", "e": OP("==", M(V("q"), "convert",
                                                         U(s2)), V("q"))}]
                    out.append((steps, "%s %s -> %s" % (x, s1, s2)))
    return out


def run(chk, R, tier, seed, rng):
    progs = programs(rng, tier)
    # hazard flags need the division logger: separate pure run with divlog
    Rp = Runner(native=False, accel=True, reach=False)
    Rn = Runner(native=True, accel=False, reach=False)
    try:
        res_p = _run(Rp, progs, divlog=True)
        res_n = _run(Rn, progs, divlog=False)
        chk.extra["native_backend"] = Rn.meta.get("backend")
    finally:
        Rp.close()
        Rn.close()
    if Rn.meta.get("backend") != "native":
        chk.extra["native_tier"] = "native back end not available: skipped"
        return
    predicted = diverged_pred = diverged_unpred = clean = 0
    for i, (steps, desc) in enumerate(progs):
        rp, rn = res_p.get(i), res_n.get(i)
        if rp is None or rp.get("died"):
            chk.inconclusive_because("native tier: pure-Python run of %s "
                                     "failed" % desc)
            continue
        hazard = rp.get("hazard", 0) > 0
        predicted += hazard
        chk.case(("native", desc), nontrivial=True)
        same = rn is not None and not rn.get("died") and \
            strip(rn["obs"]) == strip(rp["obs"])
        if same:
            clean += 1
            continue
        what = ("native decimalfp back end: %s: %s" % (
            desc, ("process died (%s)" % rn.get("died")) if rn is None or
            rn.get("died") else "observations differ from the pure-Python "
            "back end: %s vs %s" % (_brief(rn["obs"]), _brief(rp["obs"]))))
        if hazard:
            diverged_pred += 1
            chk.violation(what, dict(steps=steps, native=rn and rn.get("obs"),
                                     pure=rp["obs"], hazard=True), MECH)
        else:
            diverged_unpred += 1
            chk.violation(what + " (NOT hazard-predicted)",
                          dict(steps=steps, native=rn and rn.get("obs"),
                               pure=rp["obs"], hazard=False),
                          "native-divergence-unpredicted")
    chk.extra["native_tier"] = dict(
        programs=len(progs), hazard_predicted=predicted,
        diverged_predicted=diverged_pred,
        diverged_unpredicted=diverged_unpred, identical=clean)
    chk.count("native tier programs", len(progs))
    chk.count("native tier hazard-predicted programs", predicted)
    import os
    if tier == "thorough" or os.environ.get("VERIF_SANITIZE"):
        safe = [(i, p) for i, p in enumerate(progs)
                if res_p.get(i) and not res_p[i].get("hazard")]
        hazardous = [(i, p) for i, p in enumerate(progs)
                     if res_p.get(i) and res_p[i].get("hazard")]
        sanitizer_stage(chk, safe, hazardous[:200], res_p)


def sanitizer_stage(chk, safe, hazardous, res_p):
    """Rebuild decimalfp's C extension from the shipped sources with
    -fsanitize=address,undefined into a temporary directory and repeat the
    native run under it.  Can only add a finding; skipped (and said so) when
    the build is not possible."""
    import glob
    import os
    import re
    import shutil
    import subprocess
    import sysconfig
    import tempfile
    info = {}
    chk.extra["sanitizer_stage"] = info
    d = tempfile.mkdtemp(prefix="vq-asan-")
    try:
        r = subprocess.run(
            ["/venv/bin/python", "-c",
             "import decimalfp, os; print(os.path.dirname(decimalfp.__file__))"],
            capture_output=True, text=True, timeout=60)
        sp = r.stdout.strip().splitlines()[-1] if r.stdout.strip() else ""
        rts = glob.glob("/usr/lib/llvm-14/lib/clang/*/lib/linux/"
                        "libclang_rt.asan-x86_64.so")
        inc = subprocess.run(
            ["/venv/bin/python", "-c",
             "import sysconfig; print(sysconfig.get_paths()['include']);"
             "print(sysconfig.get_config_var('EXT_SUFFIX'))"],
            capture_output=True, text=True, timeout=60).stdout.split()
        if not sp or not rts or len(inc) != 2 or \
                not os.path.exists(os.path.join(sp, "_cdecimalfp.c")):
            info["status"] = "skipped: sources, clang runtime or headers " \
                             "not found"
            return
        pkg = os.path.join(d, "decimalfp")
        os.makedirs(pkg)
        for f in glob.glob(os.path.join(sp, "*.py")) + \
                [os.path.join(sp, "py.typed")]:
            if os.path.exists(f):
                shutil.copy(f, pkg)
        so = os.path.join(pkg, "_cdecimalfp" + inc[1])
        cmd = ["clang", "-shared", "-fPIC", "-O1", "-g", "-DNDEBUG",
               "-fsanitize=address,undefined", "-fno-omit-frame-pointer",
               "-I" + inc[0], "-I" + os.path.join(sp, "libfpdec"), "-I" + sp,
               os.path.join(sp, "_cdecimalfp.c")] + \
            sorted(glob.glob(os.path.join(sp, "libfpdec", "*.c"))) + \
            ["-o", so, "-lm"]
        b = subprocess.run(cmd, capture_output=True, text=True, timeout=600)
        if b.returncode != 0 or not os.path.exists(so):
            info["status"] = "skipped: build failed: " + b.stderr[-300:]
            return
        logdir = os.path.join(d, "logs")
        os.makedirs(logdir)
        Rs = Runner(native=True, accel=False, reach=False)
        Rs.pythonpath_prefix = [d]
        Rs.extra_env = {
            "LD_PRELOAD": rts[0],
            "ASAN_OPTIONS": "detect_leaks=0:halt_on_error=0:log_path=%s" %
                            os.path.join(logdir, "san"),
            "UBSAN_OPTIONS": "print_stacktrace=1:halt_on_error=0:"
                             "log_path=%s" % os.path.join(logdir, "san")}
        try:
            def blocks():
                out = []
                for f in glob.glob(os.path.join(logdir, "san*")):
                    txt = open(f, errors="replace").read()
                    for m in re.finditer(
                            r"(ERROR: AddressSanitizer[^\n]*|"
                            r"[^\n]*runtime error:[^\n]*)", txt):
                        out.append(m.group(1)[-200:])
                    os.unlink(f)
                return out
            res = Rs.run([{"pid": i, "isolate": True, "steps": st}
                          for i, (st, _) in safe], prog_timeout=60,
                         timeout=1800)
            b_safe = blocks()
            div = [i for i, _ in safe
                   if res.get(i) is None or res[i].get("died") or
                   strip(res[i]["obs"]) != strip(res_p[i]["obs"])]
            info["programs_not_predicted"] = len(safe)
            info["report_blocks_not_predicted"] = len(b_safe)
            info["divergences_not_predicted"] = len(div)
            if b_safe or div:
                chk.violation(
                    "sanitizer build of decimalfp: %d report block(s) and %d "
                    "divergence(s) on programs that are NOT hazard-predicted:"
                    " %s" % (len(b_safe), len(div), b_safe[:3]),
                    dict(reports=b_safe[:20], diverging=div[:20]),
                    "native-divergence-unpredicted")
            Rs.run([{"pid": i, "isolate": True, "steps": st}
                    for i, (st, _) in hazardous], prog_timeout=60,
                   timeout=1800)
            b_h = blocks()
            dedup = {}
            for x in b_h:
                key = re.sub(r"0x[0-9a-f]+|pid \d+|==\d+==", "", x)[-120:]
                dedup[key] = dedup.get(key, 0) + 1
            info["programs_predicted"] = len(hazardous)
            info["report_blocks_predicted"] = len(b_h)
            info["distinct_reports_predicted"] = dedup
            info["status"] = "ran"
        finally:
            Rs.close()
    except Exception as exc:      # can only add a finding
        info["status"] = "skipped: %r" % (exc,)
    finally:
        shutil.rmtree(d, ignore_errors=True)


def _run(R, progs, divlog):
    programs_ = [{"pid": i, "isolate": True, "steps": st}
                 for i, (st, _) in enumerate(progs)]
    return R.run(programs_, prog_timeout=20, divlog=divlog, timeout=900)


def _brief(obs):
    out = {}
    for k, v in obs.items():
        if v.get("k") in ("Q", "N") and v.get("a"):
            a = v["a"]
            out[k] = "%s/%s" % (str(a[0])[:24], str(a[1])[:24])
        else:
            out[k] = v.get("cls") or v.get("v") or v.get("k")
    return out
