"""C15 -- directory coherence: unique symbols, own type, definitions mean
what they say."""
from __future__ import annotations

import random
from fractions import Fraction as F

from ..cases import Case, run_cases, Q, U, V, M, OP
from ..ctl import num, val, is_exc, EXACT_TYPES
from ..gen import Decl, random_plan, rand_fraction
from ..histories import (History, make_fault, compare_snapshot,
                         fresh_factory, FAULT_CLASSES)
from ..models import si_table as SI
from ..models.world import World, Rejected, OutOfDomain, predefined_world
from ..ops import operand, describe_operand
from ..oracle import brief, judge_prediction

RULE = ("seeded declaration histories of 5..35 steps (base / derived types "
        "with and without reference unit and quantum; scaled, term-defined, "
        "derived-from-base-units and definition-less units; invalid steps of "
        "14 classes woven in), one fresh process per history, a directory "
        "snapshot through public calls after every step, scale probes "
        "(conversion to the reference unit, products/quotients judged by the "
        "dimension model, reference unit = product of base reference units) "
        "at the end; plus the predefined catalogue as one more history; "
        "non-trivial = history with >= 5 successful declarations; distinct "
        "by history")
ANCHORS = ("QuantityMeta.__new__", "QuantityMeta.__init__",
           "QuantityMeta._make_unit", "QuantityMeta._make_ref_unit",
           "QuantityMeta.new_unit", "QuantityMeta.derive_unit_from",
           "DefinedItemRegistry.register_item", "Quantity.__new__",
           "Unit.__new__")


def weave(rng, plan, fault_rate=0.2, classes=FAULT_CLASSES, reuse=True):
    """interleave invalid attempts (built against the model state at that
    point) with the valid plan"""
    w = World()
    events = []
    fresh = fresh_factory()
    pending_reuse = []
    for d in plan:
        if rng.random() < fault_rate:
            f = make_fault(rng, w, rng.choice(classes), fresh)
            if f is not None:
                events.append(("fault", f))
                pending_reuse.extend(f.new_syms)
                if f.followup is not None:
                    try:
                        f.followup.apply(w)
                        f.followup.reuse = True
                        events.append(("decl", f.followup))
                    except (Rejected, OutOfDomain, KeyError):
                        pass
        try:
            d.apply(w)
        except (Rejected, OutOfDomain, KeyError):
            continue
        events.append(("decl", d))
        if reuse and pending_reuse and rng.random() < 0.5:
            sym = pending_reuse.pop()
            lin = [t for t in w.types.values() if t.has_ref]
            if lin and sym not in w.units:
                t = rng.choice(lin)
                r = Decl("scaled", t=t.name, sym=sym, k=F(2), parent=t.ref)
                try:
                    r.apply(w)
                    r.reuse = True
                    events.append(("decl", r))
                except (Rejected, OutOfDomain):
                    pass
    # a few faults at the very end as well
    for _ in range(rng.randint(0, 2)):
        f = make_fault(rng, w, rng.choice(classes), fresh)
        if f is not None:
            events.append(("fault", f))
    return events


def history_case(chk, rng, hi, fault_rate=0.2, prop="C15"):
    plan, _ = random_plan(rng, max_units=3)
    events = weave(rng, plan, fault_rate)
    H = History(rng, events)
    steps = H.build()
    w = H.world
    # ---- probes at the end
    probes = []
    for sym, u in w.units.items():
        t = w.types[u.tname]
        if t.has_ref:
            x = rand_fraction(rng, small=True, allow_zero=False)
            k = "c.%s" % sym
            steps.append({"k": k, "e": M(Q(num(x), sym), "convert",
                                         U(t.ref))})
            steps.append({"k": k + ".q", "e": Q(num(x), sym)})
            probes.append(("conv", k, sym, t.ref))
    syms = list(w.units)
    for j in range(min(30, 3 * len(syms))):
        s1, s2 = rng.choice(syms), rng.choice(syms)
        kinds = rng.choice(["qq", "qu", "uq", "uu"])
        op = rng.choice("*/")
        e1, m1 = operand(rng, w, s1, kinds[0])
        e2, m2 = operand(rng, w, s2, kinds[1])
        k = "o%d" % j
        steps.append({"k": k, "e": OP(op, e1, e2)})
        probes.append(("op", k, w.predict_mul(op, m1, m2),
                       "(%s) %s (%s)" % (describe_operand(m1), op,
                                         describe_operand(m2)),
                       kinds == "uu"))
    for t in w.types.values():
        if not t.base and t.has_ref:
            refs = [w.types[n].ref for n, _ in t.defn]
            sym = "yy%s" % t.name
            k = "r.%s" % t.name
            steps.append({"id": "yy", "k": k,
                          "e": ["m", V(t.name), "derive_unit_from",
                                [U(r) for r in refs],
                                {"symbol": ["s", sym]}]})
            steps.append({"k": k + ".c", "e": M(Q(["i", 1], sym), "convert",
                                                U(t.ref))})
            probes.append(("refprod", k, t.name, sym))
    hist_desc = [("%s %s" % (kind, getattr(ev, "desc", None) or
                             ev.to_json())) for kind, ev in events]

    def judge(obs, rec, case):
        if obs is None:
            chk.inconclusive_because("history died: %s" % rec.get("died"))
            return
        n_ok = sum(1 for tr in H.trace if tr.get("expect") == "ok")
        chk.case((prop, hi, str(hist_desc)[:2000]), nontrivial=n_ok >= 5)
        chk.count("histories")
        uids = {}
        bad = []
        mechs = set()
        for tr in H.trace:
            if tr["kind"] == "skip":
                continue
            r = obs.get(tr["key"])
            if tr["expect"] == "ok":
                chk.count("declared|" + tr["cls"])
                if getattr(dict(H.events_by_key).get(tr["key"]), "reuse",
                           False):
                    chk.count("symbol re-used after a rejection")
                if r is None or r.get("k") == "E":
                    bad.append("%s: valid declaration rejected: %s -- %s" %
                               (tr["key"], tr["desc"], brief(r)))
                    mechs.add("valid-rejected")
                    break       # the model is out of step from here on
            else:
                chk.count("rejected|" + tr["cls"])
                if r is None or r.get("k") != "E":
                    bad.append("%s: invalid declaration accepted: %s -> %s" %
                               (tr["key"], tr["desc"], brief(r)))
                    mechs.add("invalid-accepted")
                    break
            problems = compare_snapshot(tr["model"], obs.get(tr["skey"]),
                                        tr["syms"], tr["typevars"], uids,
                                        "after %s (%s)" % (tr["key"],
                                                           tr["desc"]))
            if problems:
                bad.extend(problems[:4])
                if tr["expect"] == "reject":
                    mechs.add("trace-after-rejection")
                else:
                    mechs.add("directory")
                if any("Quantity lists" in p for p in problems):
                    mechs.add("base-type-lists-units")
            if any(not t.has_ref for t in tr["model"].types.values()):
                pass
        if any(not t.has_ref for t in w.types.values()):
            chk.count("histories with types without reference unit")
        chk.count("snapshots", len(H.trace))
        if not bad:
            for p in probes:
                if p[0] == "conv":
                    _, k, sym, ref = p
                    r, q = obs.get(k, {}), obs.get(k + ".q", {})
                    chk.count("scale probes")
                    if q.get("k") != "Q":
                        bad.append("constructing %s failed: %s" %
                                   (sym, brief(q)))
                        continue
                    want = w.expected_amount(val(q) * w.units[sym].factor,
                                             ref)
                    if r.get("k") != "Q" or val(r) != want or \
                            r["at"] not in EXACT_TYPES:
                        bad.append("unit %s does not have the scale its "
                                   "definition denotes: %s %s -> %s, expected "
                                   "%s %s" % (sym, val(q), sym, brief(r),
                                              want, ref))
                        mechs.add("scale")
                elif p[0] == "op":
                    _, k, pred, desc, ul = p
                    problems, cls = judge_prediction(
                        w, pred, obs.get(k), unit_level=ul,
                        ufactor=pred.get("ufactor"))
                    chk.count("operation probes")
                    if problems:
                        bad.append("%s: %s" % (desc, "; ".join(problems)))
                        mechs.add("scale-by-use")
                else:
                    _, k, tname, sym = p
                    r, c = obs.get(k, {}), obs.get(k + ".c", {})
                    chk.count("reference-unit product probes")
                    if r.get("k") != "U" or c.get("k") != "Q" or \
                            val(c) != w.expected_amount(F(1), w.types[tname].ref):
                        bad.append("reference unit of %s is not the product "
                                   "of the base reference units: %s, %s" %
                                   (tname, brief(r), brief(c)))
                        mechs.add("ref-unit-product")
        if bad:
            mech = "+".join(sorted(mechs)) or "directory"
            chk.violation("history %d: %s" % (hi, "; ".join(bad[:3])),
                          dict(history=hist_desc, problems=bad[:12],
                               steps=steps), mech)
        else:
            chk.sample(dict(history=hist_desc[:12],
                            steps=len(hist_desc)))
    H.events_by_key = [("e%d" % i, ev) for i, (kind, ev) in
                       enumerate(events)]
    return Case(steps, judge, isolate=True)


def predefined_history(chk):
    """the predefined catalogue as one more history: one snapshot"""
    w = predefined_world()
    syms = list(SI.UNITS)
    types = list(SI.DIMS)
    steps = [{"id": t, "e": ["g", "quantity.predefined:" + t]} for t in types]
    steps.append({"k": "snap", "snap": {
        "syms": syms, "types": dict({t: t for t in types},
                                    Quantity="__Quantity__")}})

    def judge(obs, rec, case):
        if obs is None:
            chk.inconclusive_because("predefined history died")
            return
        chk.case(("predefined",))
        chk.count("predefined catalogue snapshot")
        problems = compare_snapshot(w, obs.get("snap"), syms,
                                    ["Quantity"] + types, {},
                                    "after importing quantity.predefined")
        if problems:
            mech = "base-type-lists-units" if any(
                "Quantity lists" in p for p in problems) else "directory"
            chk.violation("predefined catalogue: %s" % "; ".join(problems[:3]),
                          dict(problems=problems[:20]), mech)
    return Case(steps, judge, isolate=True)


def same_name_case(chk, rng, i):
    """Two different quantity types whose classes have the same __name__ (a
    user's own `Length` next to the predefined one): a second type for a
    dimension already taken is rejected however the definition is spelled,
    and products find the first."""
    nm = rng.choice(["Twin", "Length", "Q"])
    e1, e2 = rng.choice([(1, -1), (1, 1)])
    steps = [
        {"cls": {"name": nm, "kw": {"ref_unit_symbol": ["s", "ta%d" % i]}},
         "id": "TA", "k": "ta"},
        {"cls": {"name": nm, "kw": {"ref_unit_symbol": ["s", "tb%d" % i]}},
         "id": "TB", "k": "tb"},
        {"cls": {"name": "First", "kw": {
            "define_as": ["term", [[V("TA"), e1], [V("TB"), e2]]],
            "ref_unit_symbol": ["s", "tf%d" % i]}}, "id": "D1", "k": "d1"},
        # the same dimension, factors the other way round, own free symbol
        {"cls": {"name": "Second", "kw": {
            "define_as": ["term", [[V("TB"), e2], [V("TA"), e1]]],
            "ref_unit_symbol": ["s", "tg%d" % i]}}, "id": "D2", "k": "d2"},
        {"k": "sym", "e": U("tg%d" % i)},
        {"k": "prod", "e": OP("*" if e2 == 1 else "/",
                              Q(["i", 2], "ta%d" % i),
                              Q(["i", 3], "tb%d" % i))},
    ]

    def judge(obs, rec, case):
        if obs is None or "d1" not in obs:
            chk.inconclusive_because("same-name case not observed")
            return
        if any(obs.get(k, {}).get("k") == "E" for k in ("ta", "tb", "d1")):
            chk.count("same-name types not declarable")
            return
        chk.case(("same-name types", i, nm, e1, e2))
        chk.count("types with equal class names")
        bad = []
        if obs.get("d2", {}).get("k") != "E":
            bad.append("a second type for the dimension %s**%d * %s**%d of "
                       "two types that are both called %r was accepted" %
                       (nm, e1, nm, e2, nm))
        elif obs.get("sym", {}).get("k") != "E":
            bad.append("the rejected type's symbol is registered")
        pr = obs.get("prod", {})
        if pr.get("k") != "Q" or pr.get("t") != "First" or \
                val(pr) != F(2) ** e1 * F(3) ** e2:
            bad.append("2 ta ** %d * 3 tb ** %d gives %s, expected %s of "
                       "type First" % (e1, e2, brief(pr),
                                       F(2) ** e1 * F(3) ** e2))
        if bad:
            chk.violation("; ".join(bad), dict(obs=obs, steps=steps),
                          "dup-dimension")
    return Case(steps, judge, isolate=True)


def run(chk, R, tier, seed):
    rng = random.Random("C15-%d" % seed)
    for c in ("declared|base", "declared|derived", "declared|plain",
              "declared|scaled", "declared|term", "declared|derive",
              "histories with types without reference unit", "scale probes",
              "operation probes", "reference-unit product probes",
              "predefined catalogue snapshot",
              "symbol re-used after a rejection"):
        chk.require(c)
    for c in FAULT_CLASSES:
        chk.require("rejected|" + c)
    n = 500 if tier == "quick" else 10000
    done = 0
    while done < n:
        m = min(n - done, 2000)
        cases = [history_case(chk, rng, done + i) for i in range(m)]
        run_cases(chk, R, cases, preload=("quantity",))
        done += m
    run_cases(chk, R, [predefined_history(chk)])
    chk.require("types with equal class names")
    run_cases(chk, R, [same_name_case(chk, rng, i)
                       for i in range(12 if tier == "quick" else 100)],
              preload=("quantity",))
