"""C04 -- equality and ordering agree with exact reference values."""
from __future__ import annotations

import random
from fractions import Fraction as F

from ..cases import Case, run_cases, world_program, Q, U, V, M, OP
from ..ctl import num, val, is_exc, dec_str
from ..gen import random_plan, rand_fraction, enc_amount
from ..models import si_table as SI
from ..models.world import predefined_world
from ..oracle import brief
from ..ops import derived, computed, rogue_converter_sub

RULE = ("triples of same-type quantities built to collide: equal across "
        "units, near-ties (+-1e-30 relative), Decimal/Fraction twins, "
        "negative, zero; the six operators on all ordered pairs of the "
        "triple, sorted(); all ordered unit pairs per type compared as units; "
        "predefined and synthetic worlds; non-trivial = units differ or "
        "values collide; distinct by (world, operands)")
ANCHORS = ("Quantity._compare", "Quantity.__eq__", "Unit._compare",
           "Unit.__eq__")

OPS = ["==", "!=", "<", "<=", ">", ">="]
PY = {"==": lambda a, b: a == b, "!=": lambda a, b: a != b,
      "<": lambda a, b: a < b, "<=": lambda a, b: a <= b,
      ">": lambda a, b: a > b, ">=": lambda a, b: a >= b}


def triple_sub(chk, rng, w, wid, plan=None):
    cands = [t for t in w.types.values() if t.has_ref]
    t = rng.choice(cands)
    us = [u.sym for u in w.units_of(t.name)]
    syms = [rng.choice(us) for _ in range(3)]
    v = rand_fraction(rng, small=rng.random() < 0.6)
    style = rng.choice(["equal", "near", "twins", "random", "equal"])
    vals = []
    for i, s in enumerate(syms):
        f = w.units[s].factor
        if style == "equal":
            x = v / f
        elif style == "near":
            x = v / f
            if i:
                x = x + rng.choice([-1, 1]) * (abs(x) or 1) / 10 ** 30
        elif style == "twins":
            x = v / f if i < 2 else rand_fraction(rng, small=True)
        else:
            x = rand_fraction(rng, small=True)
        vals.append(x)
    steps = []
    names = "abc"
    for i, (x, s) in enumerate(zip(vals, syms)):
        if style == "twins" and i == 1 and dec_str(x) is not None:
            kinds = ("F",)
        elif style == "twins" and i == 0:
            kinds = ("D",)
        else:
            kinds = ("D", "F", "int")
        ce = None if style == "twins" else computed(rng, w, x, s)
        if ce is not None:
            chk.count("operands that are results of value-changing "
                      "operations")
        steps.append({"id": names[i], "k": names[i],
                      "e": ce if ce is not None else
                      derived(rng, Q(enc_amount(rng, x, kinds)[0], s), s)})
    for i in range(3):
        for j in range(3):
            for op in OPS:
                steps.append({"k": "%s%s%s" % (names[i], op, names[j]),
                              "e": OP(op, V(names[i]), V(names[j]))})
    extra = [Q(enc_amount(rng, rand_fraction(rng, small=True),
                          ("D", "F"))[0], rng.choice(us)) for _ in range(3)]
    steps.append({"k": "sorted", "e": ["un", "sorted",
                                       ["l", [V("a"), V("b"), V("c")] +
                                        extra]]})
    steps.append({"k": "extra", "e": ["l", extra]})
    for fn in ("min", "max"):
        steps.append({"k": fn, "e": ["c", ["g", "builtins:" + fn],
                                     [["l", [V("a"), V("b"), V("c")]]]]})

    def judge(obs):
        if not obs or "a" not in obs:
            chk.inconclusive_because("comparison case not observed")
            return
        qs = [obs[n] for n in names]
        if any(q.get("k") != "Q" for q in qs):
            chk.violation("constructing operands failed",
                          dict(obs=obs, steps=steps), "construct")
            return
        rv = [w.refval(val(q), q["u"]) for q in qs]
        chk.case((wid, style, tuple(syms), tuple(str(x) for x in vals)),
                 nontrivial=len(set(syms)) > 1 or len(set(rv)) < 3)
        chk.count("style|" + style)
        if len(set(rv)) < 3 and len(set(syms)) > 1:
            chk.count("equal across units")
        if qs[0]["at"] != qs[1]["at"] and rv[0] == rv[1]:
            chk.count("decimal/fraction twins")
        if style == "near":
            chk.count("near-ties")
        if w.types[t.name].quantum is not None:
            chk.count("quantized type")
        bad = []
        for i in range(3):
            for j in range(3):
                for op in OPS:
                    r = obs.get("%s%s%s" % (names[i], op, names[j]), {})
                    want = PY[op](rv[i], rv[j])
                    if r.get("k") != "bool" or r["v"] is not want:
                        bad.append("%s %s %s is %s, reference values %s %s "
                                   "%s say %s" % (
                                       brief(qs[i]), op, brief(qs[j]),
                                       brief(r), rv[i], op, rv[j], want))
        srt = obs.get("sorted", {})
        ext = obs.get("extra", {})
        if srt.get("k") != "T" or ext.get("k") != "T":
            bad.append("sorted() failed: %s" % brief(srt))
        else:
            items = srt["items"]
            key = lambda q: (q["u"], tuple(q["a"]))     # noqa: E731
            inp = sorted(key(q) for q in qs + ext["items"])
            if sorted(key(q) for q in items) != inp:
                bad.append("sorted() is not a permutation of its input")
            seq = [w.refval(val(q), q["u"]) for q in items]
            if any(seq[i] > seq[i + 1] for i in range(len(seq) - 1)):
                bad.append("sorted() output is not non-decreasing: %s" %
                           [str(x) for x in seq])
            chk.count("sorted lists")
        for fn, pick in (("min", min), ("max", max)):
            r = obs.get(fn, {})
            want = pick(rv)
            # the built-ins return the first extremal operand
            first = qs[rv.index(want)]
            if r.get("k") != "Q" or w.refval(val(r), r["u"]) != want:
                bad.append("%s(a, b, c) is %s, reference values %s" %
                           (fn, brief(r), [str(x) for x in rv]))
            elif (r["u"], r["a"]) != (first["u"], first["a"]):
                bad.append("%s(a, b, c) is %s, the first extremal operand "
                           "is %s" % (fn, brief(r), brief(first)))
            chk.count("min / max over a triple")
        if bad:
            wit = dict(obs={k: obs[k] for k in list(names) + ["sorted"]},
                       steps=steps[:3], world=wid, problems=bad[:10])
            if plan is not None:
                wit["declarations"] = plan
            chk.violation("%s: %s" % (t.name, bad[0]), wit, "comparison")
        else:
            chk.sample(dict(style=style, a=brief(qs[0]), b=brief(qs[1]),
                            c=brief(qs[2])))
    return steps, judge


def portions_sub(chk, rng, w, wid):
    """ordering of quantities that came out of allocate() (adjusted in place
    by the dispersal) against each other and against fresh equal ones"""
    qunits = [s_ for s_ in w.units if w.quantum_of(s_) is not None and
              w.types[w.units[s_].tname].has_ref]
    u = rng.choice(qunits)
    refs = [s_ for s_ in qunits
            if w.types[w.units[s_].tname].ref == s_]
    if refs and rng.random() < 0.5:
        # half of the time the reference unit itself (whatever is derived
        # from an amount at construction is most likely derived there)
        u = rng.choice(refs)
    q = w.quantum_of(u)
    x = rng.randint(1, 400) * q
    n = rng.choice([3, 3, 6, 7])
    ratios = ["l", [["i", rng.choice([1, 1, 1, 2, 3])] for _ in range(n)]]
    steps = [{"id": "al", "e": M(Q(num(x), u), "allocate", ratios)},
             {"id": "ps", "k": "ps", "e": ["idx", V("al"), 0]}]
    pairs = [(i, j) for i in range(n) for j in range(n)][:20]
    for i in range(n):
        steps.append({"id": "f%d" % i,
                      "e": ["c", ["g", "quantity:Quantity"],
                            [["a", ["idx", V("ps"), i], "amount"], U(u)]]})
    for i, j in pairs:
        for op in OPS:
            steps.append({"k": "p%d%s%d" % (i, op, j),
                          "e": OP(op, ["idx", V("ps"), i],
                                  ["idx", V("ps"), j])})
            if i == j:
                steps.append({"k": "f%d%s%d" % (i, op, j),
                              "e": OP(op, ["idx", V("ps"), i],
                                      V("f%d" % i))})
    steps.append({"k": "sorted", "e": ["un", "sorted", V("ps")]})
    # ... and against fresh quantities in ANOTHER unit of the type, at the
    # two grid points around each exact share (allocate() adjusts portions
    # after they were built: whatever was derived from the amount before
    # must not be used afterwards)
    import math
    tname = w.units[u].tname
    others = [uu.sym for uu in w.units_of(tname) if uu.sym != u and
              w.units[uu.sym].factor != w.units[u].factor]
    probes = []
    if others:
        v = rng.choice(others)
        fu, fv = w.units[u].factor, w.units[v].factor
        rs = [val_ for val_ in (F(r_[1]) for r_ in ratios[1])]
        for i in range(n):
            share = x * rs[i] / sum(rs)
            lo = math.floor(share / q) * q
            for gi, g in enumerate((lo, lo + q)):
                steps.append({"id": "x%d_%d" % (i, gi),
                              "e": Q(num(g * fu / fv), v)})
                for op in OPS:
                    steps.append({"k": "x%d_%d%s" % (i, gi, op),
                                  "e": OP(op, ["idx", V("ps"), i],
                                          V("x%d_%d" % (i, gi)))})
                    steps.append({"k": "y%d_%d%s" % (i, gi, op),
                                  "e": OP(op, V("x%d_%d" % (i, gi)),
                                          ["idx", V("ps"), i])})
                probes.append((i, gi, g))

    def judge(obs):
        ps = (obs or {}).get("ps")
        if ps is None or ps.get("k") != "T":
            chk.inconclusive_because("allocation for comparison not observed")
            return
        chk.case((wid, "portions", u, str(x), n))
        chk.count("comparisons of allocate() results")
        vals = [val(p) for p in ps["items"]]
        bad = []
        for i, j in pairs:
            for op in OPS:
                r = obs.get("p%d%s%d" % (i, op, j), {})
                want = PY[op](vals[i], vals[j])
                if r.get("v") is not want:
                    bad.append("portion %s %s %s portion %s %s is %s" %
                               (vals[i], u, op, vals[j], u, brief(r)))
                if i == j:
                    r = obs.get("f%d%s%d" % (i, op, j), {})
                    want = PY[op](vals[i], vals[i])
                    if r.get("v") is not want:
                        bad.append("portion %s %s %s an equal fresh quantity "
                                   "is %s" % (vals[i], u, op, brief(r)))
        for i, gi, g in probes:
            chk.count("allocate() results compared across units")
            for op in OPS:
                for pre, want in (("x", PY[op](vals[i], g)),
                                  ("y", PY[op](g, vals[i]))):
                    r = obs.get("%s%d_%d%s" % (pre, i, gi, op), {})
                    if r.get("v") is not want:
                        bad.append("portion %s %s %s %s (= %s %s, given in "
                                   "%s)%s is %s" %
                                   (vals[i], u, op, g, g, u, v,
                                    " mirrored" if pre == "y" else "",
                                    brief(r)))
        srt = obs.get("sorted", {})
        if srt.get("k") == "T":
            seq = [val(p) for p in srt["items"]]
            if seq != sorted(vals):
                bad.append("sorted(portions) = %s" % [str(v) for v in seq])
        if bad:
            chk.violation("%s: %s" % (w.units[u].tname, bad[0]),
                          dict(obs={"ps": ps}, steps=steps[:2],
                               problems=bad[:10]), "comparison")
    return steps, judge


def unit_pair_sub(chk, w, wid, s1, s2, plan=None):
    steps = [{"k": op, "e": OP(op, U(s1), U(s2))} for op in OPS]

    def judge(obs):
        if not obs:
            chk.inconclusive_because("unit comparison not observed")
            return
        chk.case((wid, "units", s1, s2))
        chk.count("unit pairs")
        f1, f2 = w.units[s1].factor, w.units[s2].factor
        if s1 != s2 and f1 == f2:
            chk.count("same-scale unit pairs")
        for op in OPS:
            r = obs.get(op, {})
            want = PY[op](f1, f2)
            if r.get("k") != "bool" or r["v"] is not want:
                wit = dict(obs=obs, steps=steps, world=wid)
                if plan is not None:
                    wit["declarations"] = plan
                chk.violation("Unit %s %s Unit %s is %s, scales %s %s %s say "
                              "%s" % (s1, op, s2, brief(r), f1, op, f2, want),
                              wit, "unit-comparison")
    return steps, judge


def run(chk, R, tier, seed):
    rng = random.Random("C04-%d" % seed)
    for c in ("equal across units", "near-ties", "decimal/fraction twins",
              "sorted lists", "unit pairs", "same-scale unit pairs",
              "worlds", "quantized type",
              "worlds with a deviating converter registered on a type with "
              "reference unit"):
        chk.require(c)
    w = predefined_world()
    cases = []
    wrap = lambda jd: (lambda obs, rec, case: jd(obs))      # noqa: E731
    for tname in SI.LINEAR_TYPES:
        us = SI.units_of(tname)
        for s1 in us:
            for s2 in us:
                st, jd = unit_pair_sub(chk, w, "predefined", s1, s2)
                cases.append(Case(st, wrap(jd)))
    chk.exhaustive["ordered unit pairs per predefined linear type"] = True
    n = 4000 if tier == "quick" else 40000
    for _ in range(n):
        st, jd = triple_sub(chk, rng, w, "predefined")
        cases.append(Case(st, wrap(jd)))
    for _ in range(400 if tier == "quick" else 4000):
        st, jd = portions_sub(chk, rng, w, "predefined")
        cases.append(Case(st, wrap(jd)))
    chk.require("comparisons of allocate() results")
    chk.require("allocate() results compared across units")
    run_cases(chk, R, cases, per_program=60)
    nw = 60 if tier == "quick" else 800
    cases = []
    for wi in range(nw):
        plan, ww = random_plan(rng, noref=False)
        planj = [d.to_json() for d in plan]
        wid = "world%d" % wi
        subs = [triple_sub(chk, rng, ww, wid, planj) for _ in range(8)]
        if wi % 3 == 0:
            rs = rogue_converter_sub(chk, rng, ww)
            if rs:
                subs.insert(0, rs)
        for t in ww.types.values():
            us = [u.sym for u in ww.units_of(t.name)]
            for s1 in us:
                for s2 in us:
                    subs.append(unit_pair_sub(chk, ww, wid, s1, s2, planj))
        cases.append(world_program(chk, plan, subs, wid))
    run_cases(chk, R, cases, preload=("quantity",))


_run_generated = run


def run(chk, R, tier, seed):          # noqa: F811
    _run_generated(chk, R, tier, seed)
    from .. import suitemon
    if suitemon.wanted(tier):
        # the repository's own tests as one more workload (DESIGN 9.7)
        suitemon.suite_stage(chk, R, "C04")
