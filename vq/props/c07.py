"""C07 -- term algebra is an exact commutative group with a canonical form."""
from __future__ import annotations

import itertools
import random
from fractions import Fraction as F

from ..cases import Case, run_cases, Q, U, V, M, OP
from ..ctl import num, val, is_exc, dec_str
from ..models import si_table as SI
from ..models.world import predefined_world, vmul, vpow
from ..oracle import brief

RULE = ("random terms of length 0..6 (and their pairs) over (i) "
        "harness-defined elements implementing the term-element protocol: "
        "base elements, families of mutually convertible elements with "
        "rational factors incl. an alias, non-convertible elements sharing a "
        "sort key, derived elements with nested definitions, and (ii) real "
        "units (all predefined, alias and int-defined units, currencies), "
        "with int/Decimal/Fraction numeric elements and exponents -3..3; plus "
        "the exhaustive sweep of all terms of length <= 2 over a 12-element "
        "alphabet with exponents -2..2; non-trivial = term has a non-numeric "
        "element or a numeric exponent other than 1; distinct by (pool, "
        "items, second term, scalar, power)")
ANCHORS = ("Term._reduce_items", "Term.normalized", "Term.__hash__",
           "Term.__eq__", "Term.__mul__", "Term.__truediv__",
           "Term.__rtruediv__", "Term.__pow__", "Term.reciprocal",
           "Term.num_elem", "Term.split", "_iter_normalized")

# ---- harness element pool -------------------------------------------------
# name -> (sort key, family, definition items or None); definition items are
# [(('n', Fraction) | ('e', name), exp)]
POOL = [
    ("$A0", 101, "A", None),
    ("$A1", 101, "A", [(("n", F(1000)), 1), (("e", "$A0"), 1)]),
    ("$A2", 101, "A", [(("n", F(1, 10)), 1), (("e", "$A0"), 1)]),
    ("$A3", 101, "A", [(("n", F(12)), 1), (("e", "$A2"), 1)]),
    ("$A4", 101, "A", [(("n", F(1)), 1), (("e", "$A0"), 1)]),      # alias
    ("$B0", 102, "B", None),
    ("$B1", 102, "B", [(("n", F(60)), 1), (("e", "$B0"), 1)]),
    ("$B2", 102, "B", [(("n", F(60)), 1), (("e", "$B1"), 1)]),
    ("$C0", 103, None, None),
    ("$C1", 103, None, None),
    ("$C2", 103, None, None),
    ("$D0", 104, None, None),
    ("$E0", 105, "E", None),
    ("$E1", 105, "E", [(("n", F(1, 3)), 1), (("e", "$E0"), 1)]),
    ("$F0", 106, "F", [(("e", "$A0"), 1), (("e", "$B0"), -1)]),
    ("$F1", 106, "F", [(("e", "$A1"), 1), (("e", "$B2"), -1)]),
    ("$F2", 106, "F", [(("n", F(7, 2)), 1), (("e", "$F0"), 1)]),
    ("$G0", 107, "G", [(("e", "$A0"), 2)]),
    ("$G1", 107, "G", [(("e", "$A1"), 2)]),
    ("$H0", 108, "H", [(("e", "$F0"), 1), (("e", "$B0"), -1)]),
    ("$H1", 108, "H", [(("e", "$F1"), 1), (("e", "$B1"), -1)]),
    ("$I0", 109, None, [(("e", "$C0"), 1), (("e", "$A0"), -1)]),
    ("$I1", 109, None, [(("e", "$C1"), 1), (("e", "$A0"), -1)]),
    ("$I2", 109, None, [(("e", "$C0"), 1), (("e", "$A1"), -1)]),
    # three elements with one sort key whose _get_factor raises TypeError
    # (the behaviour of classes with definitions whose names tie)
    ("$J0", 110, "!J0", None),
    ("$J1", 110, "!J1", None),
    ("$J2", 110, "!J2", None),
]
BASE = {n for n, k, f, d in POOL if d is None}


def pool_dens():
    den = {}
    depth = {}
    for name, key, fam, d in POOL:
        if d is None:
            den[name] = (F(1), {name: 1})
            depth[name] = 0
        else:
            f, v = F(1), {}
            dp = 0
            for (kind, x), e in d:
                if kind == "n":
                    f *= F(x) ** e
                else:
                    f *= den[x][0] ** e
                    v = vmul(v, vpow(den[x][1], e))
                    dp = max(dp, depth[x] + 1)
            den[name] = (f, v)
            depth[name] = dp
    return den, depth


POOL_DEN, POOL_DEPTH = pool_dens()


def pool_prelude():
    steps = []
    for name, key, fam, d in POOL:
        spec = {"name": name, "key": key, "family": fam}
        if fam is not None:
            spec["factor"] = num(POOL_DEN[name][0])
        if d is not None:
            spec["def"] = ["term", [[num(x) if kind == "n" else V(x), e]
                                    for (kind, x), e in d]]
        steps.append({"defelem": spec})
    return steps


UNIT_PRELUDE = [
    {"e": M(["g", "quantity.money:Money"], "register_currency", ["s", c])}
    for c in ("EUR", "USD", "HKD")] + [
    {"e": M(["g", "quantity.predefined:Duration"], "new_unit", ["s", "sec"],
            ["s", "Sec"], OP("*", ["i", 1], U("s")))},
    {"e": M(["g", "quantity.predefined:DataVolume"], "new_unit", ["s", "oct"],
            ["s", "Octet"], OP("*", ["i", 1], U("B")))},
    {"e": M(["g", "quantity.predefined:Length"], "new_unit", ["s", "x3"],
            ["s", "x3"], ["term", [[["i", 3], 1], [U("m"), 1]]])},
    {"e": M(["g", "quantity.predefined:Length"], "new_unit", ["s", "x7"],
            ["s", "x7"], ["term", [[["i", 7], 1], [U("m"), 1]]])},
    # multiples of units of a type without reference unit: elements that
    # carry a scale but are convertible only within their own base unit
    {"e": M(["g", "quantity.predefined:Temperature"], "new_unit",
            ["s", "mK"], ["s", "Millikelvin"],
            OP("*", ["D", "0.001"], U("K")))},
    {"e": M(["g", "quantity.predefined:Temperature"], "new_unit",
            ["s", "kK"], ["s", "Kilokelvin"], OP("*", ["i", 1000], U("K")))},
    {"e": M(["g", "quantity.predefined:Temperature"], "new_unit",
            ["s", "m°C"], ["s", "Millicelsius"],
            OP("*", ["D", "0.001"], U("°C")))},
]


def unit_dens():
    w = predefined_world({"EUR": 2, "USD": 2, "HKD": 2})
    den = {s: (u.factor, u.vec) for s, u in w.units.items()}
    den["sec"] = den["s"]
    den["oct"] = den["B"]
    den["x3"] = (F(3), den["m"][1])
    den["x7"] = (F(7), den["m"][1])
    den["mK"] = (F(1, 1000), den["K"][1])
    den["kK"] = (F(1000), den["K"][1])
    den["m°C"] = (F(1, 1000), den["°C"][1])
    return den


UNIT_DEN = unit_dens()
UNIT_BASE = {"kg", "m", "s", "B", "°C", "°F", "K", "EUR", "USD", "HKD"}


# ---- model ----------------------------------------------------------------

def den_items(items, dens):
    """items: [((kind, x), exp)] with kind n|e -> (factor, vec)"""
    f, v = F(1), {}
    for (kind, x), e in items:
        if kind == "n":
            f *= F(x) ** e
        else:
            f *= dens[x][0] ** e
            v = vmul(v, vpow(dens[x][1], e))
    return f, v


def den_obs(rec, dens):
    """denotation of an observed Term record; -> (factor, vec, problems)"""
    probs = []
    if rec is None or rec.get("k") != "Term":
        return None, None, ["not a term: %s" % brief(rec)]
    f, v = F(1), {}
    for el, e in rec["items"]:
        k = el.get("k")
        if k == "N":
            if el.get("at") == "float":
                probs.append("float %s in a term" % el.get("hex"))
                if el.get("a") is None:
                    continue
            x = val(el)
            if x == 0:
                probs.append("zero numeric element")
                continue
            f *= x ** e
        elif k in ("Elem", "U"):
            name = el.get("name") or el.get("sym")
            if name not in dens:
                probs.append("unknown element %r" % name)
                continue
            f *= dens[name][0] ** e
            v = vmul(v, vpow(dens[name][1], e))
        else:
            probs.append("strange element %s" % brief(el))
    return f, v, probs


def items_key(rec):
    out = []
    for el, e in rec["items"]:
        if el.get("k") == "N":
            out.append(("n", tuple(el["a"]) if el.get("a") else el.get("hex"),
                        e))
        else:
            out.append(("e", el.get("name") or el.get("sym"), e))
    return tuple(out)


def normal_form_problems(rec, base):
    probs = []
    seen = set()
    for i, (el, e) in enumerate(rec["items"]):
        if el.get("k") == "N":
            if i != 0:
                probs.append("numeric element not in front")
            if e != 1:
                probs.append("numeric element with exponent %d" % e)
            if el.get("a") and val(el) == 1:
                probs.append("numeric element 1 kept")
        else:
            name = el.get("name") or el.get("sym")
            if name not in base:
                probs.append("derived element %s in a normal form" % name)
            if name in seen:
                probs.append("element %s occurs twice" % name)
            seen.add(name)
            if e == 0:
                probs.append("zero exponent kept")
    if sum(1 for el, _ in rec["items"] if el.get("k") == "N") > 1:
        probs.append("more than one numeric element")
    return probs


# ---- generation -----------------------------------------------------------

def enc_items(items, pool):
    out = []
    for (kind, x), e in items:
        if kind == "n":
            out.append([x[1], e])       # x = (Fraction, expr)
        elif pool == "harness":
            out.append([V(x), e])
        else:
            out.append([U(x), e])
    return out


def rand_num(rng):
    r = rng.random()
    if r < 0.4:
        x = F(rng.choice([2, 3, 5, 7, 10, 12, 60, 1000, -3]))
        return x, num(x, "int")
    if r < 0.7:
        x = F(rng.randint(1, 999), 10 ** rng.randint(1, 3))
        return x, num(x, "D")
    x = F(rng.randint(1, 40), rng.choice([3, 7, 9, 11, 6]))
    if rng.random() < 0.15:
        x = -x
    return x, num(x, "F")


def rand_items(rng, names, maxlen=6):
    n = rng.choice([0, 1, 1, 2, 2, 2, 3, 3, 4, 5, 6])
    n = min(n, maxlen)
    items = []
    for _ in range(n):
        e = rng.choice([-3, -2, -1, -1, 0, 1, 1, 1, 2, 2, 3])
        if rng.random() < 0.3:
            items.append((("n", rand_num(rng)), e))
        else:
            items.append((("e", rng.choice(names)), e))
    return items


def expand_once(rng, items, pool):
    """another spelling: some derived elements replaced by their definition"""
    defs = {n: d for n, k, f, d in POOL} if pool == "harness" else {}
    out = []
    for (k, x), e in items:
        if k == "e" and defs.get(x) and rng.random() < 0.8:
            for (kk, xx), ee in defs[x]:
                if kk == "n":
                    out.append((("n", (F(xx), num(F(xx)))), ee * e))
                else:
                    out.append((("e", xx), ee * e))
        else:
            out.append(((k, x), e))
    rng.shuffle(out)
    return out


def model_items(items):
    return [((k, x[0] if k == "n" else x), e) for (k, x), e in items]


def term_case(chk, rng, pool, items1, items2=None, exhaustive=False):
    dens = POOL_DEN if pool == "harness" else UNIT_DEN
    base = BASE if pool == "harness" else UNIT_BASE
    names = [n for n, *_ in POOL] if pool == "harness" else list(UNIT_DEN)
    if items2 is None:
        items2 = rand_items(rng, names)
    T = lambda it: ["term", enc_items(it, pool)]           # noqa: E731
    kx, ke = rand_num(rng)
    n = rng.choice([-3, -2, -1, 0, 1, 2, 3])
    perm = items1[:]
    rng.shuffle(perm)
    steps = [
        {"id": "t1", "k": "t1", "e": T(items1)},
        {"id": "t2", "k": "t2", "e": T(items2)},
        {"id": "n1", "k": "n1", "e": M(V("t1"), "normalized")},
        {"k": "nn1", "e": M(V("n1"), "normalized")},
        {"k": "n2", "e": M(V("t2"), "normalized")},
        {"k": "isn", "e": ["a", V("t1"), "is_normalized"]},
        {"k": "ne", "e": ["a", V("t1"), "num_elem"]},
        {"k": "sp", "e": M(V("t1"), "split")},
        {"k": "mul", "e": OP("*", V("t1"), V("t2"))},
        {"k": "div", "e": OP("/", V("t1"), V("t2"))},
        {"k": "rec", "e": M(V("t1"), "reciprocal")},
        {"k": "pw", "e": OP("**", V("t1"), ["i", n])},
        {"k": "km", "e": OP("*", ke, V("t1"))},
        {"k": "mk", "e": OP("*", V("t1"), ke)},
        {"k": "dk", "e": OP("/", V("t1"), ke)},
        {"k": "kd", "e": OP("/", ke, V("t1"))},
        {"k": "eqh", "e": ["eqhash", V("t1"), V("t2")]},
        {"k": "eqn", "e": ["eqhash", V("t1"), V("n1")]},
        {"k": "eqp", "e": ["eqhash", V("t1"), T(perm)]},
        {"k": "np", "e": M(T(perm), "normalized")},
        # results of different operations that denote the same term
        {"k": "h.rec-pow", "e": ["eqhash", M(V("t1"), "reciprocal"),
                                 OP("**", V("t1"), ["i", -1])]},
        {"k": "h.rec-rdiv", "e": ["eqhash", M(V("t1"), "reciprocal"),
                                  OP("/", ["i", 1], V("t1"))]},
        {"k": "h.mul-comm", "e": ["eqhash", OP("*", V("t1"), V("t2")),
                                  OP("*", V("t2"), V("t1"))]},
        {"k": "h.scalar-comm", "e": ["eqhash", OP("*", ke, V("t1")),
                                     OP("*", V("t1"), ke)]},
        {"k": "h.div-rec", "e": ["eqhash", OP("/", V("t1"), V("t2")),
                                 M(OP("/", V("t2"), V("t1")),
                                   "reciprocal")]},
        {"k": "h.pow-mul", "e": ["eqhash", OP("**", V("t1"), ["i", 2]),
                                 OP("*", V("t1"), V("t1"))]},
        {"k": "h.mul-ctor", "e": ["eqhash", OP("*", V("t1"), V("t2")),
                                  T(items1 + items2)]},
        # the quotient of two terms against the empty term
        {"k": "q.empty", "e": ["eqhash", OP("/", V("t1"), V("t2")),
                               ["term", []]]},
        {"k": "q.empty-r", "e": ["eqhash", ["term", []],
                                 OP("/", V("t1"), V("t2"))]},
    ]
    m1, m2 = model_items(items1), model_items(items2)
    d1, d2 = den_items(m1, dens), den_items(m2, dens)
    info = dict(pool=pool, items1=_ij(m1), items2=_ij(m2), k=str(kx), n=n)

    def judge(obs, rec, case):
        if not obs or "t1" not in obs:
            chk.inconclusive_because("term case not observed")
            return
        nontriv = any(k == "e" or e != 1 for (k, x), e in m1)
        chk.case((pool, str(m1), str(m2), str(kx), n), nontrivial=nontriv)
        chk.count("pool|" + pool)
        for (k, x), e in m1:
            if k == "n" and x.denominator == 1 and e < 0:
                chk.count("int with negative exponent")
            if k == "n" and e not in (0, 1) and len(m1) == 1:
                chk.count("purely numeric term with exponent != 1")
            if k == "e" and pool == "harness" and POOL_DEPTH[x] >= 2:
                chk.count("nested definition depth >= 2")
        fams = [x for (k, x), e in m1 if k == "e" and e]
        if len({dens[x][1] and tuple(sorted(dens[x][1])) for x in fams}) < \
                len(set(fams)) and len(set(fams)) > 1:
            chk.count("convertible pair merged")
        bad = []

        def expect_den(key, want, what):
            r = obs.get(key)
            f, v, probs = den_obs(r, dens)
            for p in probs:
                bad.append("%s: %s" % (what, p))
            if f is None:
                return
            if (f, v) != want:
                bad.append("%s denotes %s*%s, expected %s*%s" %
                           (what, f, v, want[0], want[1]))
        expect_den("t1", d1, "Term(items)")
        expect_den("n1", d1, "normalized()")
        expect_den("mul", (d1[0] * d2[0], vmul(d1[1], d2[1])), "t1 * t2")
        expect_den("div", (d1[0] / d2[0], vmul(d1[1], d2[1], -1)), "t1 / t2")
        expect_den("rec", (1 / d1[0], vpow(d1[1], -1)), "reciprocal()")
        expect_den("pw", (d1[0] ** n, vpow(d1[1], n)), "t1 ** %d" % n)
        expect_den("km", (kx * d1[0], d1[1]), "k * t1")
        expect_den("mk", (kx * d1[0], d1[1]), "t1 * k")
        expect_den("dk", (d1[0] / kx, d1[1]), "t1 / k")
        expect_den("kd", (kx / d1[0], vpow(d1[1], -1)), "k / t1")
        n1, nn1, n2, np_ = (obs.get(k) for k in ("n1", "nn1", "n2", "np"))
        if n1 and n1.get("k") == "Term":
            for p in normal_form_problems(n1, base):
                bad.append("normal form: " + p)
            if nn1 and nn1.get("k") == "Term" and \
                    items_key(nn1) != items_key(n1):
                bad.append("normalisation is not idempotent")
            if np_ and np_.get("k") == "Term" and \
                    items_key(np_) != items_key(n1):
                bad.append("the same items in another order normalise to "
                           "another item sequence")
            if d1 == d2 and n2 and n2.get("k") == "Term" and \
                    items_key(n2) != items_key(n1):
                bad.append("equal terms normalise to different item "
                           "sequences")
        isn = obs.get("isn", {})
        if isn.get("v") is True and obs["t1"].get("k") == "Term":
            for p in normal_form_problems(obs["t1"], base):
                bad.append("is_normalized is True but: " + p)
        ne = obs.get("ne", {})
        if ne.get("k") == "N" and ne.get("at") == "float":
            bad.append("num_elem is a float")
        sp = obs.get("sp", {})
        if sp.get("k") == "T" and len(sp["items"]) == 2:
            sn, st = sp["items"]
            f, v, probs = den_obs(st, dens)
            if sn.get("at") == "float":
                bad.append("split() returns a float")
            elif f is not None and sn.get("k") == "N" and \
                    (val(sn) * f, v) != d1 and not probs:
                bad.append("split() parts do not multiply to the term")
        elif sp.get("k") == "E":
            bad.append("split() raised %s" % brief(sp))

        def expect_eq(key, want_eq, what):
            r = obs.get(key, {})
            if r.get("k") != "T":
                bad.append("%s failed: %s" % (what, brief(r)))
                return
            eq = r["items"][0].get("v")
            if eq is not want_eq:
                bad.append("%s is %s, the denotations say %s" %
                           (what, eq, want_eq))
            if eq and (r["items"][1].get("v") is not True or
                       val(r["items"][2]) != 1):
                bad.append("%s: equal but hashes differ" % what)
        expect_eq("eqh", d1 == d2, "t1 == t2")
        expect_eq("eqn", True, "t1 == t1.normalized()")
        expect_eq("eqp", True, "t1 == Term(same items, other order)")
        for hk in ("h.rec-pow", "h.rec-rdiv", "h.mul-comm", "h.scalar-comm",
                   "h.div-rec", "h.pow-mul", "h.mul-ctor"):
            expect_eq(hk, True, "equal results (%s)" % hk[2:])
            chk.count("equal operation results compared")
        expect_eq("q.empty", d1 == d2, "t1 / t2 == Term(())")
        expect_eq("q.empty-r", d1 == d2, "Term(()) == t1 / t2")
        if d1 == d2 and m1 != m2:
            chk.count("equal pairs with different items")
            if any(k == "e" and x not in base for (k, x), e in m1 + m2):
                chk.count("equal pairs that cancel only after expansion")
        if bad:
            floaty = any("float" in b for b in bad)
            order = any("order" in b or "sequence" in b for b in bad)
            mech = "float" if floaty else "order" if order else "algebra"
            chk.violation("Term %s: %s" % (_ij(m1), "; ".join(bad[:4])),
                          dict(info=info, obs=obs, steps=steps,
                               problems=bad[:20]), mech)
        else:
            chk.sample(dict(info=info, normalized=brief_term(n1)))
    return Case(steps, judge)


def brief_term(rec):
    if not rec or rec.get("k") != "Term":
        return brief(rec)
    return " ".join("%s^%d" % ((el.get("name") or el.get("sym") or
                                str(val(el))), e) for el, e in rec["items"])


def _ij(items):
    return [[str(x), e] for (k, x), e in items]


def run(chk, R, tier, seed):
    rng = random.Random("C07-%d" % seed)
    for c in ("int with negative exponent",
              "purely numeric term with exponent != 1",
              "convertible pair merged", "nested definition depth >= 2",
              "pool|harness", "pool|units",
              "equal pairs with different items",
              "equal operation results compared",
              "equal pairs that cancel only after expansion"):
        chk.require(c)
    hnames = [n for n, *_ in POOL]
    unames = list(UNIT_DEN)
    cases = []
    # exhaustive sweep: alphabet of 12, exponents -2..2, length <= 2
    alpha = [("n", (F(2), num(F(2), "int"))),
             ("n", (F(1, 2), num(F(1, 2), "D"))),
             ("n", (F(1, 3), num(F(1, 3), "F"))),
             ("e", "$A0"), ("e", "$A1"), ("e", "$A4"), ("e", "$B0"),
             ("e", "$C0"), ("e", "$C1"), ("e", "$F0"), ("e", "$F1"),
             ("e", "$I0")]
    singles = [[(a, e)] for a in alpha for e in (-2, -1, 0, 1, 2)]
    for it in singles:
        cases.append(term_case(chk, rng, "harness", it))
    stride = 1 if tier == "thorough" else 3
    doubles = [[(a, e), (b, f)] for a in alpha for e in (-2, -1, 0, 1, 2)
               for b in alpha for f in (-2, -1, 0, 1, 2)]
    for i, it in enumerate(doubles):
        if i % stride == seed % stride:
            cases.append(term_case(chk, rng, "harness", it))
    chk.exhaustive["terms of length <= 2 over 12 elements, exponents -2..2"] \
        = (stride == 1)
    n = 4000 if tier == "quick" else 60000
    for i in range(n):
        pool = "harness" if i % 2 == 0 else "units"
        names = hnames if pool == "harness" else unames
        items1 = rand_items(rng, names)
        items2 = None
        r = rng.random()
        if r < 0.15 and items1 and pool == "harness":
            items2 = expand_once(rng, items1, pool)
        elif r < 0.35 and items1:
            # a second spelling of the same term
            items2 = items1[:]
            rng.shuffle(items2)
            if rng.random() < 0.5:
                j = rng.randrange(len(items2))
                (k, x), e = items2[j]
                if abs(e) >= 2:
                    items2[j] = ((k, x), e - (1 if e > 0 else -1))
                    items2.append(((k, x), 1 if e > 0 else -1))
        cases.append(term_case(chk, rng, pool, items1, items2))
    rng.shuffle(cases)
    run_cases(chk, R, cases, per_program=50,
              prelude=pool_prelude() + UNIT_PRELUDE)


_run_generated = run


def run(chk, R, tier, seed):          # noqa: F811
    _run_generated(chk, R, tier, seed)
    from .. import suitemon
    if suitemon.wanted(tier):
        # the repository's own tests as one more workload (DESIGN 9.7)
        suitemon.suite_stage(chk, R, "C07")
