"""C01 -- unit conversion within a quantity type is exact and coherent."""
from __future__ import annotations

import random
from fractions import Fraction as F

from ..cases import Case, run_cases, Q, U, V, M, OP
from ..ctl import num, val, is_exc, EXACT_TYPES
from ..gen import random_plan, plan_steps, rand_fraction, enc_amount
from ..models import si_table as SI
from ..models import rounding as RM
from ..models.world import predefined_world
from ..ops import stored, rogue_converter_sub
from ..oracle import brief

RULE = ("all ordered pairs of units of each linear predefined type x amounts "
        "of every input kind; sampled/complete triples (conversion through an "
        "intermediate unit); cross-type pairs; synthetic worlds with chains "
        "of scaled / term-defined / derived units; non-trivial = source and "
        "target unit differ; distinct by (world, amount, units)")
ANCHORS = ("Quantity.convert", "Quantity.equiv_amount", "Unit._get_factor",
           "QuantityMeta._make_unit", "Quantity.__eq__")


def conv_steps(rng, x, s1, s2, s3, kinds=("D", "F", "int", "fl", "s", "SD")):
    e, kind = enc_amount(rng, x, kinds)
    steps = [
        {"id": "q", "k": "q", "e": Q(e, s1), "_x": F(x)},
        {"id": "r", "k": "r", "e": M(V("q"), "convert", U(s2))},
        {"k": "tu", "e": U(s2)},
        {"k": "eq", "e": OP("==", V("r"), V("q"))},
        {"k": "back", "e": M(V("r"), "convert", U(s1))},
        {"k": "ea", "e": M(V("q"), "equiv_amount", U(s2))},
    ]
    if s3 is not None:
        steps.append({"k": "via", "e": M(M(V("q"), "convert", U(s3)),
                                         "convert", U(s2))})
    # the same unit pair once more with another amount
    x2 = F(x) * 3 + F(7, 2)
    steps.append({"id": "q2", "k": "q2", "e": Q(num(x2), s1)})
    steps.append({"k": "r2", "e": M(V("q2"), "convert", U(s2))})
    return steps, kind


def judge_conv(chk, w, wid, obs, steps, s1, s2, s3, kind, plan=None):
    if obs is None or "q" not in obs:
        chk.inconclusive_because("conversion case not observed")
        return
    q = obs["q"]
    info = dict(world=wid, src=s1, dst=s2, via=s3, kind=kind)

    def viol(what, mech):
        wit = dict(info=info, obs=obs, steps=steps)
        if plan is not None:
            wit["declarations"] = plan
        chk.violation("%s %s -> %s%s: %s" % (
            brief(q), s1, s2, " via " + s3 if s3 else "", what), wit, mech)

    if q.get("k") != "Q":
        viol("construction failed", "construct")
        return
    chk.case((wid, str(val(q)), s1, s2, s3), nontrivial=(s1 != s2))
    chk.count("kind|" + kind)
    x_in = steps[0].get("_x") if steps else None
    if x_in is not None and val(q) != stored(w, x_in, s1):
        # the source quantity itself: only a unit with a quantum of its own
        # type may round it (a subclass does not inherit its parent's)
        viol("constructed from %s, holds %s, expected %s" %
             (x_in, val(q), stored(w, x_in, s1)), "value")
        return
    f1, f2 = w.units[s1].factor, w.units[s2].factor
    xs = val(q)
    exact = xs * f1 / f2
    q2 = w.quantum_of(s2)
    quantized = q2 is not None
    if (f1 / f2).denominator not in (1,) and \
            _nonterminating(f1 / f2):
        chk.count("non-terminating factor")
    if q["at"] == "Fraction":
        chk.count("fraction amount")
    chk.count("unit-kind|" + w.units[s2].kind)
    if quantized:
        chk.count("quantized")
    r = obs.get("r")
    if r is None or r.get("k") != "Q":
        viol("convert did not return a quantity: %s" % brief(r),
             "convert-raises")
        return
    bad = []
    tu = obs.get("tu", {})
    if r["u"] != s2 or r["uid"] != tu.get("uid"):
        bad.append("result unit is not the identical target unit")
    if r["t"] != q["t"]:
        bad.append("type changed to %s" % r["t"])
    if r["at"] not in EXACT_TYPES:
        bad.append("amount is a %s" % r["at"])
    if not quantized:
        if val(r) != exact:
            bad.append("amount %s, expected exactly %s" % (val(r), exact))
    else:
        want = RM.round_to(exact, q2, RM.DEFAULT_MODE)
        if val(r) != want:
            bad.append("amount %s, expected %s (exact %s rounded once to "
                       "the quantum %s)" % (val(r), want, exact, q2))
    eq = obs.get("eq", {})
    back = obs.get("back", {})
    ea = obs.get("ea", {})
    if not quantized and w.quantum_of(s1) is None:
        if eq.get("v") is not True:
            bad.append("converted quantity != original (%s)" % brief(eq))
        if back.get("k") != "Q" or val(back) != xs or back["u"] != s1:
            bad.append("converting back gives %s, not the original amount" %
                       brief(back))
    else:
        if back.get("k") == "Q":
            q1 = w.quantum_of(s1)
            if (val(back) / q1).denominator != 1:
                bad.append("back-converted amount off the grid")
            # two roundings: < 1 quantum of s1 + 1 quantum of s2 (in s1 units)
            if abs(val(back) - xs) >= q1 + q2 * f2 / f1:
                bad.append("back-conversion further away than the two "
                           "roundings allow: %s" % brief(back))
        else:
            bad.append("converting back failed: %s" % brief(back))
    if ea.get("k") != "N" or ea.get("at") not in EXACT_TYPES or \
            val(ea) != exact:
        bad.append("equiv_amount gives %s, expected %s" % (brief(ea), exact))
    q2o, r2o = obs.get("q2", {}), obs.get("r2", {})
    if q2o.get("k") == "Q":
        chk.count("second amount through the same unit pair")
        want2 = w.expected_amount(val(q2o) * f1, s2)
        if r2o.get("k") != "Q" or val(r2o) != want2 or r2o["u"] != s2:
            bad.append("a second quantity %s %s converts to %s, expected %s"
                       % (val(q2o), s1, brief(r2o), want2))
    if s3 is not None:
        via = obs.get("via", {})
        chk.count("triples")
        if w.quantum_of(s3) is None and not quantized:
            if via.get("k") != "Q" or val(via) != exact or via["u"] != s2:
                bad.append("via %s gives %s, direct gives %s" %
                           (s3, brief(via), exact))
        elif via.get("k") != "Q":
            bad.append("via %s failed: %s" % (s3, brief(via)))
        elif abs(val(via) - exact) >= q2 + w.quantum_of(s3) * \
                w.units[s3].factor / f2:
            bad.append("via %s further than two roundings away" % s3)
    if bad:
        mech = "float" if any("float" in b for b in bad) else "value"
        viol("; ".join(bad), mech)
    else:
        chk.sample(dict(info=info, stored=str(xs), got=brief(r),
                        exact=str(exact)))


def _nonterminating(x):
    d = F(x).denominator
    while d % 2 == 0:
        d //= 2
    while d % 5 == 0:
        d //= 5
    return d != 1


def cross_case(chk, rng, w, wid, s1, s2):
    x = rand_fraction(rng, small=True)
    e, kind = enc_amount(rng, x, ("D", "F", "int"))
    steps = [{"id": "q", "k": "q", "e": Q(e, s1)},
             {"k": "r", "e": M(V("q"), "convert", U(s2))},
             {"k": "ea", "e": M(V("q"), "equiv_amount", U(s2))},
             # the converting forms of the constructor: amount-and-symbol
             # text of one type with a unit of the other, through the generic
             # factory and through the target unit's own type
             {"k": "ps", "e": ["c", ["g", "quantity:Quantity"],
                               [["s", "5 " + s1], U(s2)]]},
             {"k": "pt", "e": ["c", ["a", U(s2), "qty_cls"],
                               [["s", "5 " + s1], U(s2)]]}]

    def judge(obs, rec, case):
        if obs is None or "q" not in obs:
            chk.inconclusive_because("cross-type case not observed")
            return
        chk.case((wid, "cross", s1, s2), nontrivial=True)
        chk.count("cross-type rejections")
        for k in ("r", "ea", "ps", "pt"):
            if not is_exc(obs.get(k), "IncompatibleUnitsError"):
                chk.violation(
                    "%s %s to unit %s of another type: expected "
                    "IncompatibleUnitsError, got %s" %
                    (k, s1, s2, brief(obs.get(k))),
                    dict(obs=obs, steps=steps), "cross-type")
    return Case(steps, judge)


def amounts(rng, tier):
    base = [F(5, 2), F(7, 3), F(10 ** 30 + 7, 10 ** 12)]
    if tier == "quick":
        return base
    out = base[:]
    while len(out) < 12:
        out.append(rand_fraction(rng))
    return out


def predefined_cases(chk, rng, tier):
    w = predefined_world()
    cases = []
    for tname in SI.LINEAR_TYPES:
        us = SI.units_of(tname)
        for s1 in us:
            for s2 in us:
                for x in amounts(rng, tier):
                    s3 = rng.choice(us) if rng.random() < 0.4 else None
                    cases.append(_mk(chk, rng, w, "predefined", x, s1, s2,
                                     s3))
    chk.exhaustive["ordered unit pairs of the linear predefined types"] = True
    ntr = 500 if tier == "quick" else 20000
    for _ in range(ntr):
        tname = rng.choice(SI.LINEAR_TYPES)
        us = SI.units_of(tname)
        cases.append(_mk(chk, rng, w, "predefined", rand_fraction(rng),
                         rng.choice(us), rng.choice(us), rng.choice(us)))
    syms = [s for s in SI.UNITS]
    n = 0
    while n < (300 if tier == "quick" else 3000):
        s1, s2 = rng.choice(syms), rng.choice(syms)
        if SI.type_of(s1) != SI.type_of(s2):
            cases.append(cross_case(chk, rng, w, "predefined", s1, s2))
            n += 1
    return cases


def _mk(chk, rng, w, wid, x, s1, s2, s3, plan=None):
    steps, kind = conv_steps(rng, x, s1, s2, s3)

    def judge(obs, rec, case):
        judge_conv(chk, w, wid, obs, steps, s1, s2, s3, kind, plan)
    return Case(steps, judge)


def world_case(chk, rng, wi, nconv=30):
    plan, w = random_plan(rng, noref=False)
    wid = "world%d" % wi
    planj = [d.to_json() for d in plan]
    steps = plan_steps(plan)
    subs = []
    rogue = rogue_converter_sub(chk, rng, w) if wi % 3 == 0 else None
    if rogue:
        steps.extend(rogue[0])
    linear = [t for t in w.types.values() if t.has_ref]
    subs_ref = [w.types[d.p["name"]] for d in plan
                if d.kind == "subclass" and d.p.get("ref")]
    for j in range(nconv):
        # the first few inside a subclass that has a reference unit of its
        # own (it does not share its parent's quantum)
        t = rng.choice(subs_ref) if subs_ref and j < 4 else rng.choice(linear)
        us = [u.sym for u in w.units_of(t.name)]
        s1, s2 = rng.choice(us), rng.choice(us)
        s3 = rng.choice(us) if rng.random() < 0.5 else None
        st, kind = conv_steps(rng, rand_fraction(rng), s1, s2, s3)
        for s in st:
            s["k"] = "c%d.%s" % (j, s["k"])
        subs.append((j, st, s1, s2, s3, kind))
        steps.extend(st)
    # conversions to a unit of another type of this world; where the world
    # has a subclass with a reference unit of its own, between the subclass
    # and its parent (they are different quantity types)
    cross = []
    fam = [(d.p["name"], d.p["parent"]) for d in plan
           if d.kind == "subclass" and d.p.get("ref")]
    for j in range(6):
        if fam and j < 4:
            a, b = rng.choice(fam)
            if j % 2:
                a, b = b, a
        else:
            a, b = rng.choice(list(w.types)), rng.choice(list(w.types))
        ua = [u.sym for u in w.units_of(a)]
        ub = [u.sym for u in w.units_of(b)]
        if a == b or not ua or not ub:
            continue
        s1, s2 = rng.choice(ua), rng.choice(ub)
        e, _ = enc_amount(rng, rand_fraction(rng, small=True),
                          ("D", "F", "int"))
        st = [{"k": "x%d.r" % j, "e": M(Q(e, s1), "convert", U(s2))},
              {"k": "x%d.ea" % j, "e": M(Q(e, s1), "equiv_amount", U(s2))},
              {"k": "x%d.ps" % j, "e": ["c", ["g", "quantity:Quantity"],
                                        [["s", "5 " + s1], U(s2)]]},
              {"k": "x%d.pt" % j, "e": ["c", ["a", U(s2), "qty_cls"],
                                        [["s", "5 " + s1], U(s2)]]}]
        steps.extend(st)
        cross.append((j, s1, s2, st, (a, b) in fam or (b, a) in fam))
    depth = _max_depth(plan)

    def judge(obs, rec, case):
        if obs is None:
            chk.inconclusive_because("world died: %s" % rec.get("died"))
            return
        failed = [k for k in obs if k.startswith("d") and "." not in k and
                  obs[k].get("k") == "E"]
        if failed:
            chk.count("world-skipped|valid-declaration-rejected (C15's)")
            return
        chk.count("worlds")
        if rogue:
            rogue[1](obs)
        if depth >= 3:
            chk.count("worlds with definition chain depth >= 3")
        for j, s1, s2, st, related in cross:
            chk.case((wid, "cross", s1, s2))
            chk.count("cross-type rejections in worlds")
            if related:
                chk.count("conversions between a subclass and its parent "
                          "type")
            for k in ("r", "ea", "ps", "pt"):
                r = obs.get("x%d.%s" % (j, k))
                if not is_exc(r, "IncompatibleUnitsError"):
                    chk.violation(
                        "%s: %s to unit %s of another type%s: expected "
                        "IncompatibleUnitsError, got %s" %
                        (wid, s1, s2, " (subclass / parent)" if related
                         else "", brief(r)),
                        dict(obs={kk: v for kk, v in obs.items()
                                  if kk.startswith("x%d." % j)}, steps=st,
                             declarations=planj), "cross-type")
        for j, st, s1, s2, s3, kind in subs:
            pre = "c%d." % j
            sub = {k[len(pre):]: v for k, v in obs.items()
                   if k.startswith(pre)}
            judge_conv(chk, w, wid, sub, st, s1, s2, s3, kind, planj)
    return Case(steps, judge, isolate=True)


def _max_depth(plan):
    depth = {}
    best = 0
    for d in plan:
        if d.kind == "scaled":
            depth[d.p["sym"]] = depth.get(d.p["parent"], 0) + 1
        elif d.kind in ("term", "derive"):
            ps = [x for (k, x), _ in d.p.get("items", []) if k == "u"] + \
                list(d.p.get("units", []))
            depth[d.p["sym"]] = 1 + max([depth.get(p, 0) for p in ps] or [0])
        best = max(best, depth.get(d.p.get("sym"), 0))
    return best


def run(chk, R, tier, seed):
    rng = random.Random("C01-%d" % seed)
    for c in ("non-terminating factor", "fraction amount", "triples",
              "cross-type rejections", "unit-kind|term", "unit-kind|derived",
              "unit-kind|scaled", "worlds",
              "worlds with a deviating converter registered on a type with "
              "reference unit",
              "conversions between a subclass and its parent type",
              "worlds with definition chain depth >= 3", "quantized"):
        chk.require(c)
    cases = predefined_cases(chk, rng, tier)
    run_cases(chk, R, cases, per_program=120)
    nw = 100 if tier == "quick" else 1000
    done = 0
    while done < nw:
        n = min(nw - done, 400)
        run_cases(chk, R, [world_case(chk, rng, done + i) for i in range(n)],
                  preload=("quantity",))
        done += n
    from . import c01_native
    c01_native.run(chk, R, tier, seed, rng)
