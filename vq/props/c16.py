"""C16 -- rejected declarations leave no trace."""
from __future__ import annotations

import random
from fractions import Fraction as F

from ..cases import Case, run_cases, Q, U, V, M, OP
from ..ctl import num, val, is_exc
from ..gen import Decl, random_plan
from ..histories import (History, make_fault, diff_snapshots,
                         fresh_factory, FAULT_CLASSES)
from ..models.world import World, Rejected, OutOfDomain
from ..oracle import brief

LEVEL = "fault_enumeration"
RULE = ("fault enumeration: for every seeded valid declaration history an "
        "invalid step is inserted before every position (14 classes of "
        "invalid type/unit declarations rotating so that class x position is "
        "covered), one fresh process per history, directory snapshot (every "
        "symbol ever mentioned, every type created or attempted, the base "
        "type) after every step compared with a model that does not advance "
        "on rejected steps, later valid re-use of the symbol; invalid "
        "currency parameters; MoneyConverter.update with invalid validity, "
        "mixed kind, or an invalid rate spec at first/middle/last position, "
        "all lookups compared before/after. Non-trivial = history with a "
        "rejected step; distinct by history")
ANCHORS = ("QuantityMeta.__new__", "QuantityMeta.__init__",
           "QuantityMeta.new_unit", "QuantityMeta._make_unit",
           "MoneyMeta.new_unit", "MoneyConverter.update")

MONEY = ["g", "quantity.money:Money"]
MCLS = ["g", "quantity.money:MoneyConverter"]
CODES = ["EUR", "USD", "GBP", "JPY"]


def enumerated_history(chk, rng, plan, offset, hi):
    w = World()
    events = []
    fresh = fresh_factory()
    pending = []
    followups = []
    n = len(plan)
    for pos, d in enumerate(plan):
        cls = FAULT_CLASSES[(pos + offset) % len(FAULT_CLASSES)]
        f = make_fault(rng, w, cls, fresh)
        if f is None:
            # no opportunity for this class here: try the others
            for c2 in rng.sample(FAULT_CLASSES, len(FAULT_CLASSES)):
                f = make_fault(rng, w, c2, fresh)
                if f is not None:
                    break
        if f is not None:
            f.where = "first" if pos == 0 else \
                "last" if pos == n - 1 else "middle"
            events.append(("fault", f))
            pending.extend(f.new_syms)
            if f.followup is not None:
                followups.append(f.followup)
        try:
            d.apply(w)
        except (Rejected, OutOfDomain, KeyError):
            continue
        events.append(("decl", d))
        if followups and rng.random() < 0.7:
            fd = followups.pop(0)
            try:
                fd.apply(w)
                fd.reuse = True
                events.append(("decl", fd))
            except (Rejected, OutOfDomain, KeyError):
                pass
        if pending and rng.random() < 0.4:
            sym = pending.pop(0)
            lin = [t for t in w.types.values() if t.has_ref]
            if lin and sym not in w.units:
                t = rng.choice(lin)
                r = Decl("scaled", t=t.name, sym=sym, k=F(3), parent=t.ref)
                try:
                    r.apply(w)
                    r.reuse = True
                    events.append(("decl", r))
                except (Rejected, OutOfDomain):
                    pass
    f = make_fault(rng, w, FAULT_CLASSES[(n + offset) % len(FAULT_CLASSES)],
                   fresh)
    if f is not None:
        f.where = "end"
        events.append(("fault", f))
    H = History(rng, events)
    steps = H.build()
    by_key = {"e%d" % i: ev for i, (kind, ev) in enumerate(events)}
    hist_desc = [("%s %s" % (kind, getattr(ev, "desc", None) or
                             ev.to_json())) for kind, ev in events]

    def judge(obs, rec, case):
        if obs is None:
            chk.inconclusive_because("history died: %s" % rec.get("died"))
            return
        chk.case(("hist", hi, offset, str(hist_desc)[:2000]),
                 nontrivial=any(k == "fault" for k, _ in events))
        chk.count("histories")
        prev = obs.get("s_init")
        for tr in H.trace:
            if tr["kind"] == "skip":
                continue
            r = obs.get(tr["key"])
            ev = by_key[tr["key"]]
            snap = obs.get(tr["skey"])
            if tr["expect"] == "ok":
                if getattr(ev, "reuse", False):
                    chk.count("symbol re-use after rejection")
                if r is None or r.get("k") == "E":
                    if getattr(ev, "reuse", False):
                        chk.violation(
                            "history %d: symbol of a rejected declaration is "
                            "not available for a later valid declaration: %s "
                            "-- %s" % (hi, tr["desc"], brief(r)),
                            dict(history=hist_desc, steps=steps,
                                 at=tr["key"]), "reuse-blocked")
                    else:
                        chk.count("valid step rejected (C15's business)")
                    return
            else:
                chk.count("rejected|" + tr["cls"])
                chk.count("rejected at %s position" %
                          getattr(ev, "where", "middle"))
                if r is None or r.get("k") != "E":
                    chk.count("invalid step accepted (C15's business)")
                    return
                pb = {k[len(tr["key"]) + 3:]: v for k, v in obs.items()
                      if k.startswith(tr["key"] + ".pb")}
                pa = {k[len(tr["key"]) + 3:]: v for k, v in obs.items()
                      if k.startswith(tr["key"] + ".pa")}
                changed = [i for i in pb if pb[i] != pa.get(i)]
                chk.count("operations compared before/after a rejection",
                          len(pb))
                if changed:
                    i = changed[0]
                    chk.violation(
                        "history %d: after the rejected step (%s) an "
                        "operation gives another result: %s before, %s after"
                        % (hi, tr["desc"], brief(pb[i]), brief(pa.get(i))),
                        dict(history=hist_desc, steps=steps, at=tr["key"],
                             before=pb[i], after=pa.get(i)),
                        "result-changed|" + tr["cls"])
                    return
                if prev is not None:
                    problems = diff_snapshots(prev, snap, ev.new_syms,
                                              ev.new_type)
                    chk.count("before/after snapshot pairs compared")
                    if problems:
                        chk.violation(
                            "history %d: rejected step (%s) left a trace: %s"
                            % (hi, tr["desc"], "; ".join(problems[:3])),
                            dict(history=hist_desc, problems=problems[:12],
                                 steps=steps, at=tr["key"]),
                            "trace|" + tr["cls"])
                        return
            prev = snap
        chk.sample(dict(history=hist_desc[:10], steps=len(hist_desc)))
    return Case(steps, judge, isolate=True)


# ---- currencies -------------------------------------------------------------

CUR_FAULTS = [
    ("minor-negative", {"minor_unit": ["i", -1]}),
    ("minor-not-integral", {"minor_unit": ["F", 5, 2]}),
    ("fraction-not-a-number", {"smallest_fraction": ["s", "abc"]}),
    ("fraction-zero", {"smallest_fraction": ["i", 0]}),
    ("fraction-negative", {"smallest_fraction": ["D", "-0.01"]}),
    ("fraction-not-dividing-one", {"smallest_fraction": ["D", "0.3"]}),
    ("fraction-one", {"smallest_fraction": ["i", 1]}),
    ("fraction-does-not-fit-minor", {"minor_unit": ["i", 2],
                                     "smallest_fraction": ["D", "0.001"]}),
    ("empty-symbol", None),
    ("non-string-symbol", None),
    ("unknown-iso-code", None),
]


def currency_case(chk, rng, i):
    steps = [{"e": M(MONEY, "register_currency", ["s", c])} for c in CODES]
    checks = []
    known = list(CODES)
    for j in range(rng.randint(3, 8)):
        cls, kw = rng.choice(CUR_FAULTS)
        sym = "Q%d_%d" % (i, j)
        if cls == "empty-symbol":
            e = ["m", MONEY, "new_unit", [["s", ""]], {}]
            sym = None
        elif cls == "non-string-symbol":
            e = ["m", MONEY, "new_unit", [["i", 7]], {}]
            sym = None
        elif cls == "unknown-iso-code":
            sym = rng.choice(["ZZZ", "XAU", "eur", "ABC", "XXX"])
            e = M(MONEY, "register_currency", ["s", sym])
        else:
            e = ["m", MONEY, "new_unit", [["s", sym], ["s", "n"]], kw]
        k = "f%d" % j
        steps.append({"k": k, "e": e})
        look = []
        for s in known + ([sym] if sym else []):
            look.append(s)
        steps.append({"k": k + ".snap", "snap": {
            "syms": look, "types": {"Money": "$Money",
                                    "Quantity": "__Quantity__"}}})
        checks.append((k, cls, sym, list(known)))
        if sym and sym not in known and rng.random() < 0.6:
            steps.append({"k": k + ".reuse",
                          "e": ["m", MONEY, "new_unit", [["s", sym]],
                                {"minor_unit": ["i", 2]}]})
            checks.append((k + ".reuse", "reuse", sym, None))
            known.append(sym)
    steps.insert(0, {"id": "$Money", "e": MONEY})

    def judge(obs, rec, case):
        if obs is None:
            chk.inconclusive_because("currency history died")
            return
        chk.case(("currency", i))
        for k, cls, sym, kn in checks:
            r = obs.get(k, {})
            if cls == "reuse":
                chk.count("symbol re-use after rejection")
                if r.get("k") != "U":
                    chk.violation("currency symbol %r of a rejected "
                                  "declaration cannot be declared: %s" %
                                  (sym, brief(r)), dict(steps=steps, at=k),
                                  "reuse-blocked")
                    return
                continue
            chk.count("rejected|currency:" + cls)
            if r.get("k") != "E":
                chk.count("invalid step accepted (C15's business)")
                if sym:
                    return
                continue
            snap = obs.get(k + ".snap", {})
            bad = []
            if sym:
                got = snap.get("syms", {}).get(sym, {})
                if "exc" not in got:
                    bad.append("Unit(%r) exists after the rejection" % sym)
                p = snap.get("parse", {}).get(sym, {})
                if "exc" not in p:
                    bad.append("parsing '1 %s' gives a %s" % (sym, p.get("t")))
            m = snap.get("types", {}).get("Money") or {}
            listed = sorted(s for s, _ in m.get("units", []))
            if listed != sorted(kn):
                bad.append("Money lists %s, expected %s" % (listed,
                                                            sorted(kn)))
            if bad:
                chk.violation("rejected currency declaration (%s) left a "
                              "trace: %s" % (cls, "; ".join(bad)),
                              dict(steps=steps, at=k, snap=snap),
                              "trace|currency:" + cls)
                return
    return Case(steps, judge, isolate=True)


def money_subclass_case(chk, rng, i):
    """Currency declarations in a subclass of Money.  The model takes no
    side on whether the library accepts them; the rule is the property's:
    an attempt that ends with an exception must leave no trace."""
    cname = "Cash%d" % (i % 5)
    steps = [{"id": "$Money", "e": MONEY}] + \
        [{"e": M(MONEY, "register_currency", ["s", c])} for c in CODES] + \
        [{"cls": {"name": cname, "base": MONEY, "kw": {}}, "id": "$Cash",
          "k": "cls"}]
    acts = []
    iso = [c for c in ("SEK", "NOK", "DKK", "PLN", "CZK") if c not in CODES]
    rng.shuffle(iso)
    for j in range(rng.randint(2, 5)):
        k = "a%d" % j
        if rng.random() < 0.5 and iso:
            sym = iso.pop()
            e = M(V("$Cash"), "register_currency", ["s", sym])
            what = "%s.register_currency(%r)" % (cname, sym)
        else:
            sym = "K%d_%d" % (i, j)
            kw = rng.choice([{}, {"minor_unit": ["i", 3]},
                             {"smallest_fraction": ["D", "0.05"]}])
            e = ["m", V("$Cash"), "new_unit", [["s", sym], ["s", "n"]], kw]
            what = "%s.new_unit(%r)" % (cname, sym)
        steps.append({"k": k, "e": e})
        steps.append({"k": k + ".snap", "snap": {
            "syms": [sym], "types": {"Money": "$Money", cname: "$Cash",
                                     "Quantity": "__Quantity__"}}})
        acts.append((k, sym, what))

    def judge(obs, rec, case):
        if obs is None:
            chk.inconclusive_because("money subclass history died")
            return
        if (obs.get("cls") or {}).get("k") == "E":
            chk.count("subclass of Money not declarable")
            return
        chk.case(("money subclass", i))
        cash = []
        for k, sym, what in acts:
            r = obs.get(k, {})
            snap = obs.get(k + ".snap", {})
            if r.get("k") != "E":
                chk.count("currency declarations in a Money subclass|"
                          "accepted")
                cash.append(sym)
                continue
            chk.count("currency declarations in a Money subclass|rejected")
            chk.count("rejected|currency:in-money-subclass")
            bad = []
            got = snap.get("syms", {}).get(sym, {})
            if "exc" not in got:
                bad.append("Unit(%r) exists after the rejection" % sym)
            p = snap.get("parse", {}).get(sym, {})
            if "exc" not in p:
                bad.append("parsing '1 %s' gives a %s" % (sym, p.get("t")))
            for tn, want in (("Money", sorted(CODES)), (cname, sorted(cash))):
                m = snap.get("types", {}).get(tn) or {}
                listed = sorted(s_ for s_, _ in m.get("units", []))
                if listed != want:
                    bad.append("%s lists %s, expected %s" % (tn, listed,
                                                             want))
            if bad:
                chk.violation("%s was rejected (%s) but left a trace: %s" %
                              (what, brief(r), "; ".join(bad)),
                              dict(steps=steps, at=k, snap=snap),
                              "trace|currency:in-money-subclass")
                return
    return Case(steps, judge, isolate=True)


# ---- money converter updates ----------------------------------------------

BAD_VALIDITY = [["s", "2021-13"], ["s", "2021-02-30"],
                ["t", [["i", 2021], ["i", 13]]], ["s", "abc"],
                ["fl", (3.5).hex()], ["i", 0], ["s", "2021-1-1-1"],
                ["i", 10000]]
KINDS = {"none": ["none"], "year": ["i", 2021],
         "month": ["t", [["i", 2021], ["i", 3]]], "day": ["date", 2021, 3, 4]}


def bad_spec(rng, base):
    other = [c for c in CODES if c != base]
    return rng.choice([
        ("identical-currency", ["t", [U(base), ["D", "1.5"], ["i", 1]]]),
        ("zero-amount", ["t", [U(rng.choice(other)), ["i", 0], ["i", 1]]]),
        ("negative-amount", ["t", [U(rng.choice(other)), ["D", "-2.5"],
                                   ["i", 1]]]),
        ("non-numeric-amount", ["t", [U(rng.choice(other)), ["s", "abc"],
                                      ["i", 1]]]),
        ("fractional-multiple", ["t", [U(rng.choice(other)), ["D", "1.5"],
                                       ["D", "2.5"]]]),
        ("unknown-currency-code", ["t", [["s", "ZZZ"], ["D", "1.5"],
                                         ["i", 1]]]),
        ("malformed-spec", ["t", [U(rng.choice(other)), ["D", "1.5"]]]),
        ("currency-none", ["t", [["none"], ["D", "1.5"], ["i", 1]]]),
        ("currency-not-money", ["t", [U("kg"), ["D", "1.5"], ["i", 1]]]),
        ("amount-none", ["t", [U(rng.choice(other)), ["none"], ["i", 1]]]),
        ("multiple-none", ["t", [U(rng.choice(other)), ["D", "1.5"],
                                 ["none"]]]),
        ("spec-not-a-sequence", ["i", 5]),
    ])


def converter_case(chk, rng, i):
    base = rng.choice(CODES)
    other = [c for c in CODES if c != base]
    kind = rng.choice(list(KINDS))
    steps = [{"id": "stub", "e": ["stub", "s%d" % i]},
             {"setstub": ["s%d" % i, ["date", 2021, 3, 4]]},
             {"id": "mc", "e": ["c", MCLS, [U(base), V("stub")]]}]

    def good_specs():
        return [["t", [U(c), num(F(rng.randint(2, 9999), 100) + 3), ["i", 1]]]
                for c in rng.sample(other, rng.randint(1, 3))]

    def lookups(tag):
        st = []
        for a in CODES:
            for b in CODES:
                if a == b:
                    continue
                for dn, d in (("x", [["date", 2021, 3, 4]]), ("d", []),
                              ("y", [["date", 2022, 7, 1]])):
                    st.append({"k": "%s.%s%s%s" % (tag, a, b, dn),
                               "e": M(V("mc"), "get_rate", U(a), U(b), *d)})
        return st
    checks = []
    had_valid = False
    for j in range(rng.randint(2, 6)):
        r = rng.random()
        if r < 0.45:
            k = "u%d" % j
            steps.append({"k": k, "e": M(V("mc"), "update", KINDS[kind],
                                         ["l", good_specs()])})
            checks.append((k, "valid", None))
            had_valid = True
        else:
            k = "f%d" % j
            fr = rng.random()
            if fr < 0.3:
                cls = "invalid-validity"
                e = M(V("mc"), "update", rng.choice(BAD_VALIDITY),
                      ["l", good_specs()])
            elif fr < 0.45 and had_valid:
                cls = "mixed-kind"
                k2 = rng.choice([x for x in KINDS if x != kind])
                e = M(V("mc"), "update", KINDS[k2], ["l", good_specs()])
            else:
                specs = good_specs() + good_specs()
                name, bs = bad_spec(rng, base)
                pos = rng.choice(["first", "middle", "last"])
                if pos == "first":
                    specs.insert(0, bs)
                elif pos == "last":
                    specs.append(bs)
                else:
                    specs.insert(max(1, len(specs) // 2), bs)
                cls = "bad-rate-spec:%s@%s" % (name, pos)
                fk = kind
                if not had_valid:
                    # nothing accepted yet: the attempt may use any kind and
                    # must not fix it
                    fk = rng.choice(list(KINDS))
                    if fk != kind:
                        cls = "bad-rate-spec-first-update-other-kind:%s@%s" \
                            % (name, pos)
                e = M(V("mc"), "update", KINDS[fk], ["l", specs])
            steps.extend(lookups(k + ".before"))
            steps.append({"k": k, "e": e})
            steps.extend(lookups(k + ".after"))
            checks.append((k, "fault", cls))
    steps.append({"k": "final", "e": M(V("mc"), "update", KINDS[kind],
                                       ["l", good_specs()])})

    def judge(obs, rec, case):
        if not obs:
            chk.inconclusive_because("converter case not observed")
            return
        chk.case(("converter", i), nontrivial=any(c[1] == "fault"
                                                  for c in checks))
        for k, what, cls in checks:
            r = obs.get(k, {})
            if what == "valid":
                if r.get("k") == "E":
                    chk.violation("valid update rejected after earlier "
                                  "rejected updates: %s" % brief(r),
                                  dict(steps=steps, at=k),
                                  "converter-kind-fixed-by-rejected-update")
                    return
                continue
            short = cls.split(":")[0] + ("@" + cls.split("@")[1]
                                         if "@" in cls else "")
            chk.count("rejected|converter:" + short)
            if r.get("k") != "E":
                chk.count("invalid update accepted (not C16's business)")
                return
            before = {kk[len(k) + 8:]: v for kk, v in obs.items()
                      if kk.startswith(k + ".before.")}
            after = {kk[len(k) + 7:]: v for kk, v in obs.items()
                     if kk.startswith(k + ".after.")}
            diff = [q for q in before
                    if _sig(before[q]) != _sig(after.get(q))]
            if diff:
                chk.violation(
                    "rejected update (%s) changed the converter: lookup %s "
                    "was %s, is %s" % (cls, diff[0], _sig(before[diff[0]]),
                                       _sig(after.get(diff[0]))),
                    dict(steps=steps, at=k, changed=diff[:10]),
                    "converter-partial-update")
                return
        r = obs.get("final", {})
        chk.count("update of the intended kind after rejections")
        if r.get("k") == "E":
            chk.violation("after rejected updates a valid update of the "
                          "intended kind is refused: %s" % brief(r),
                          dict(steps=steps, at="final"),
                          "converter-kind-fixed-by-rejected-update")
    return Case(steps, judge)


def _sig(rec):
    if rec is None:
        return None
    if rec.get("k") == "X":
        return rec.get("repr")
    if rec.get("k") == "E":
        return "raises " + rec.get("cls", "")
    return rec.get("k")


def run(chk, R, tier, seed):
    rng = random.Random("C16-%d" % seed)
    for c in FAULT_CLASSES:
        chk.require("rejected|" + c)
    chk.require("before/after snapshot pairs compared")
    chk.require("operations compared before/after a rejection")
    for w_ in ("first", "middle", "last", "end"):
        chk.require("rejected at %s position" % w_)
    chk.require("symbol re-use after rejection")
    for cls, _ in CUR_FAULTS:
        chk.require("rejected|currency:" + cls)
    chk.require("rejected|converter:bad-rate-spec-first-update-other-kind"
                "@first")
    for c in ("invalid-validity", "mixed-kind", "bad-rate-spec@first",
              "bad-rate-spec@middle", "bad-rate-spec@last"):
        chk.require("rejected|converter:" + c)
    chk.require("update of the intended kind after rejections")
    nb = 120 if tier == "quick" else 4000
    variants = 3
    done = 0
    while done < nb:
        m = min(nb - done, 700)
        cases = []
        for i in range(m):
            plan, _ = random_plan(rng, max_units=3)
            for v in range(variants):
                off = rng.randrange(len(FAULT_CLASSES))
                cases.append(enumerated_history(chk, rng, plan, off,
                                                (done + i) * 10 + v))
        run_cases(chk, R, cases, preload=("quantity",))
        done += m
    cases = [currency_case(chk, rng, i)
             for i in range(60 if tier == "quick" else 1500)]
    cases += [money_subclass_case(chk, rng, i)
              for i in range(20 if tier == "quick" else 300)]
    run_cases(chk, R, cases)
    prelude = [{"e": M(MONEY, "register_currency", ["s", c])} for c in CODES]
    cases = [converter_case(chk, rng, i)
             for i in range(300 if tier == "quick" else 8000)]
    run_cases(chk, R, cases, per_program=20, prelude=prelude)
