"""C10 -- applying an exchange rate converts money and prices correctly."""
from __future__ import annotations

import random
from fractions import Fraction as F

from ..cases import (Case, run_cases, world_program, currency_steps, Q, U,
                     V, M, OP)
from ..ctl import num, val, is_exc, EXACT_TYPES
from ..gen import Decl, rand_fraction
from ..models import rounding as RM
from ..models.world import predefined_world, Rejected, OutOfDomain
from ..oracle import brief
from .c09 import parse_rate
from .c05 import tie_amount

RULE = ("(incl. results a hair beside a multiple or half multiple of the "
        "target fraction) money x rate, rate x money, money / rate for matching and "
        "non-matching currencies under all 8 default rounding modes "
        "(amounts at ties of the target fraction); compound money-per-X "
        "types (Money/Mass, Money/Length, Money/Duration) x 4 currencies x 3 "
        "X-units with random subsets of units declared: declared target, "
        "undeclared target, non-matching currency, quantities without money; "
        "non-trivial = every case; distinct by (world, operands, operation, "
        "mode)")
ANCHORS = ("ExchangeRate.__mul__", "ExchangeRate.__rtruediv__",
           "_amnt_and_unit_from_term")

XR = ["g", "quantity.money:ExchangeRate"]
MONEY = ["g", "quantity.money:Money"]
# three ISO currencies and a user-declared one whose smallest fraction is no
# power of ten (five hundredths)
CURS = {"EUR": 2, "USD": 2, "JPY": 0, "BHD": 3, "XNK": F(1, 20)}
XTYPES = {"Mass": ["kg", "g", "lb"], "Length": ["m", "km", "ft"],
          "Duration": ["s", "h", "min"]}


def money_sub(chk, rng, w, mode):
    a, b = rng.sample(list(CURS), 2)
    rate_amt = F(rng.randint(1, 10 ** 7), 10 ** rng.randint(1, 6))
    um = rng.choice([1, 1, 10, 100])
    form = rng.choice(["mul", "rmul", "div", "mismatch-mul", "mismatch-div"])
    x = tie_amount(rng, w.quantum_of(a))
    steps_body = [{"id": "x", "k": "x",
                   "e": ["c", XR, [U(a), ["i", um], U(b), num(rate_amt)]]}]
    if form == "mul":
        src, dst, e = a, b, OP("*", V("m"), V("x"))
    elif form == "rmul":
        src, dst, e = a, b, OP("*", V("x"), V("m"))
    elif form == "div":
        src, dst, e = b, a, OP("/", V("m"), V("x"))
    elif form == "mismatch-mul":
        src = rng.choice([c for c in CURS if c != a])
        dst, e = None, rng.choice([OP("*", V("m"), V("x")),
                                   OP("*", V("x"), V("m"))])
    else:
        src = rng.choice([c for c in CURS if c != b])
        dst, e = None, OP("/", V("m"), V("x"))
    x = tie_amount(rng, w.quantum_of(src))
    if rng.random() < 0.35 and dst is not None:
        # make exact ties of the target fraction likely: a short rate and an
        # odd multiple of the source fraction
        um = 1
        rate_amt = rng.choice([F(2), F(2, 5), F(8)]) if form == "div" else \
            rng.choice([F(3, 2), F(1, 2), F(5, 2), F(25, 2), F(1, 20)])
        steps_body[0] = {"id": "x", "k": "x",
                         "e": ["c", XR, [U(a), ["i", 1], U(b),
                                         num(rate_amt)]]}
        x = (2 * rng.randint(-300, 300) + 1) * w.quantum_of(src)
    near = False
    if rng.random() < 0.2 and dst is not None:
        # a conversion factor so small that whole steps of the source
        # fraction move the exact result by less than 0.0000005: amounts
        # chosen to land just beside a multiple (or an odd half multiple) of
        # the target fraction -- where rounding to some fixed number of
        # decimals first and to the currency's fraction afterwards differs
        # from rounding the exact product once
        near = True
        if form == "div":
            um = 1
            rate_amt = F(rng.randint(2 * 10 ** 6, 10 ** 7),
                         10 ** rng.randint(0, 1))
            f = um / rate_amt
        else:
            um = 1000
            rate_amt = F(rng.randint(1, 4000), 10 ** 6)
            f = rate_amt / um
        steps_body[0] = {"id": "x", "k": "x",
                         "e": ["c", XR, [U(a), ["i", um], U(b),
                                         num(rate_amt)]]}
        qs, qd_ = w.quantum_of(src), w.quantum_of(dst)
        g = rng.randint(-400, 400) * qd_ / 2
        x = round(g / f / qs) * qs + rng.choice([-2, -1, 0, 1, 2]) * qs
    prov = "constructed"
    r_prov = rng.random() if not near else 1.0
    if r_prov < 0.15:
        # a rate that is the product of two rates through a third currency
        prov = "product"
        rx = steps_body[0]["e"]
        third = rng.choice([c for c in CURS if c not in (a, b)])
        k2 = F(rng.randint(5, 200), 100)
        steps_body[0] = {"id": "x", "k": "x", "e": OP(
            "*", ["c", XR, [U(a), rx[2][1], U(third), rx[2][3]]],
            ["c", XR, [U(third), ["i", 1], U(b), num(k2)]])}
    elif r_prov < 0.45:
        # the same operations with a rate object that came out of
        # inverted() (as MoneyConverter.get_rate returns them towards the
        # base currency); judged against that object's own stored rate
        prov = "inverted"
        rx = steps_body[0]["e"]
        steps_body[0] = {"id": "x", "k": "x", "e": M(
            ["c", XR, [rx[2][2], rx[2][1], rx[2][0], rx[2][3]]], "inverted")}
    steps_body.append({"id": "m", "k": "m", "e": Q(num(x), src)})
    steps_body.append({"k": "r", "e": e})
    steps = [{"setmode": mode, "body": steps_body}]
    info = dict(form=form, rate="%s %s = %s %s" % (um, a, rate_amt, b),
                src=src, mode=mode)

    def judge(obs):
        if not obs or "r" not in obs:
            chk.inconclusive_because("money-rate case not observed")
            return
        xr, m, r = parse_rate(obs.get("x")), obs.get("m", {}), obs["r"]
        if xr is None or m.get("k") != "Q":
            chk.count("operands not constructed")
            return
        chk.case(("money", form, a, b, str(rate_amt), um, str(x), mode))
        chk.count("money|" + form)
        chk.count("rate object|" + prov)
        if near:
            ex_ = val(m) * (xr["um"] / xr["ta"] if form == "div"
                            else xr["ta"] / xr["um"])
            qn = w.quantum_of(dst) / 2
            off = abs(ex_ - round(ex_ / qn) * qn)
            if 0 < off < F(5, 10 ** 7):
                chk.count("results within 0.0000005 of a (half) multiple of "
                          "the target fraction, not on it")
        wit = dict(info=info, obs=obs, steps=steps)
        if dst is None:
            if not is_exc(r, "ValueError") or is_exc(r, "QuantityError") \
                    and False:
                chk.violation("non-matching currency (%s with rate %s->%s, "
                              "%s): expected ValueError, got %s" %
                              (src, a, b, form, brief(r)), wit,
                              "money-mismatch")
            return
        # from the stored unit multiple and term amount, not from what the
        # object reports as its (inverse) rate
        exact = val(m) * (xr["um"] / xr["ta"] if form == "div"
                          else xr["ta"] / xr["um"])
        qd = w.quantum_of(dst)
        want = RM.round_to(exact, qd, mode)
        if (exact / qd).denominator != 1:
            chk.count("mode|%s|%s" % (mode, "tie" if RM.is_tie(exact, qd)
                                      else "notie"))
        if r.get("k") != "Q" or r["t"] != "Money" or r["u"] != dst or \
                val(r) != want or r["at"] not in EXACT_TYPES:
            chk.violation("%s %s %s rate(%s %s = %s %s) under %s: got %s, "
                          "expected %s %s (exact %s rounded once)" %
                          (val(m), src, form, um, a, xr["ta"] / xr["um"] * um,
                           b, mode, brief(r), want, dst, exact), wit,
                          "money-rate")
        else:
            chk.sample(dict(info=info, got=brief(r)))
    return steps, judge


def price_world(chk, rng, wi):
    w = predefined_world(CURS)
    plan = []
    tnames = {}
    for xt in XTYPES:
        name = "Price%s%d" % (xt, wi % 7)
        d = Decl("derived", name=name, items=[("Money", 1), (xt, -1)],
                 form=rng.choice(["ops", "term"]))
        d.apply(w)
        plan.append(d)
        tnames[xt] = name
    declared = {}
    for xt, xus in XTYPES.items():
        for cur in CURS:
            for xu in xus:
                if rng.random() < 0.55:
                    sym = "%s/%s" % (cur, xu)
                    d = Decl("derive", t=tnames[xt], sym=sym, units=[cur, xu])
                    d.apply(w)
                    plan.append(d)
                    declared[(xt, cur, xu)] = sym
                    if rng.random() < 0.2:
                        # a price unit that contains the currency only
                        # indirectly: a multiple of the unit just declared
                        # (cents per ...)
                        csym = "c" + sym
                        d2 = Decl("scaled", t=tnames[xt], sym=csym,
                                  k=F(1, 100), parent=sym)
                        d2.apply(w)
                        plan.append(d2)
                        declared[(xt, cur, xu + "#c")] = csym
    pre = [{"id": "Money", "e": MONEY}] + \
          [{"id": xt, "e": ["g", "quantity.predefined:" + xt]}
           for xt in XTYPES] + \
          currency_steps(CURS)
    wid = "world%d" % wi
    subs = []
    keys = list(declared)
    # a few rate objects that live for the whole world and are applied
    # repeatedly, in both directions and to matching and non-matching prices
    shared = []
    for si in range(3):
        a_, b_ = rng.sample(list(CURS), 2)
        amt = F(rng.randint(1, 10 ** 7), 10 ** rng.randint(1, 6))
        pre.append({"id": "$x%d" % si,
                    "e": ["c", XR, [U(a_), ["i", rng.choice([1, 1, 100, 1000])],
                                    U(b_), num(amt)]]})
        shared.append((a_, b_, amt, "$x%d" % si))
    for j in range(40):
        if not keys:
            break
        r = rng.random()
        a, b = rng.sample(list(CURS), 2)
        rate_amt = F(rng.randint(1, 10 ** 7), 10 ** rng.randint(1, 6))
        xexpr = ["c", XR, [U(a), ["i", 1], U(b), num(rate_amt)]]
        if r < 0.12:
            # quantity without money
            sym = rng.choice(["kg", "m", "s", "km/h", "m²"])
            amount = rand_fraction(rng, small=True)
            form = rng.choice(["mul", "rmul", "div"])
            kind = "no-money"
            src_cur = None
        else:
            xt, cur, xu = rng.choice(keys)
            sym = declared[(xt, cur, xu)]
            amount = rand_fraction(rng, small=True)
            form = rng.choice(["mul", "rmul", "div"])
            src_cur = cur
            kind = "price"
            # steer towards matching currencies most of the time
            if rng.random() < 0.75:
                if form == "div":
                    b = cur
                    a = rng.choice([c for c in CURS if c != cur])
                else:
                    a = cur
                    b = rng.choice([c for c in CURS if c != cur])
                xexpr = ["c", XR, [U(a), ["i", rng.choice([1, 10, 100])], U(b),
                                   num(rate_amt)]]
                if rng.random() < 0.25:
                    # a rate that came out of inverted()
                    xexpr = M(["c", XR, [U(b), xexpr[2][1], U(a),
                                         num(rate_amt)]], "inverted")
            if rng.random() < 0.6:
                cand = [s_ for s_ in shared if cur in s_[:2]] or shared
                a, b, rate_amt, var = rng.choice(cand)
                xexpr = V(var)
        e = {"mul": OP("*", V("p"), V("x")), "rmul": OP("*", V("x"), V("p")),
             "div": OP("/", V("p"), V("x"))}[form]
        steps = [{"id": "x", "k": "x", "e": xexpr},
                 {"id": "p", "k": "p", "e": Q(num(amount), sym)},
                 {"k": "r", "e": e}]
        info = dict(world=wid, kind=kind, price_unit=sym, form=form,
                    rate="%s->%s %s" % (a, b, rate_amt),
                    declared=sorted(declared.values()))

        def judge(obs, steps=steps, info=info, kind=kind, sym=sym, form=form,
                  a=a, b=b, src_cur=src_cur):
            if not obs or "r" not in obs:
                chk.inconclusive_because("price case not observed")
                return
            xr, p, r = parse_rate(obs.get("x")), obs.get("p", {}), obs["r"]
            if xr is None or p.get("k") != "Q":
                chk.count("operands not constructed")
                return
            chk.case((wid, sym, form, a, b, str(val(p)), str(xr["rate"])))
            wit = dict(info=info, obs=obs, steps=steps)
            if kind == "no-money":
                chk.count("price|no-money")
                if not is_exc(r, "QuantityError"):
                    chk.violation("%s %s (no money) %s rate: expected "
                                  "QuantityError, got %s" %
                                  (val(p), sym, form, brief(r)), wit,
                                  "price-no-money")
                return
            need = b if form == "div" else a
            target = a if form == "div" else b
            if src_cur != need:
                chk.count("price|mismatching currency")
                if not is_exc(r, "QuantityError"):
                    chk.violation("price in %s with rate %s->%s (%s): "
                                  "currency does not match, expected "
                                  "QuantityError, got %s" %
                                  (sym, a, b, form, brief(r)), wit,
                                  "price-mismatch")
                return
            u = w.units[sym]
            factor = xr["um"] / xr["ta"] if form == "div" \
                else xr["ta"] / xr["um"]
            value = val(p) * u.factor * factor
            vec = dict(u.vec)
            del vec[src_cur]
            vec[target] = 1
            cands = [c for c in w.units_of(u.tname) if c.vec == vec]
            must = [c for c in cands if c.factor == u.factor or c.factor == 1]
            if not cands:
                chk.count("price|undeclared target")
                if not is_exc(r, "QuantityError"):
                    chk.violation("no %s unit declared for %s: expected "
                                  "QuantityError, got %s" %
                                  (target, sym, brief(r)), wit,
                                  "price-undeclared")
                return
            if is_exc(r, "QuantityError") and not must:
                chk.count("price|gray (only another X-unit declared)")
                return
            chk.count("price|declared target" if must else
                      "price|gray (only another X-unit declared)")
            chk.count("price|order " + form)
            bad = []
            if r.get("k") != "Q":
                bad.append("expected a price in %s, got %s" %
                           (target, brief(r)))
            else:
                ru = w.units.get(r["u"])
                if ru is None or ru.tname != u.tname or r["t"] != u.tname:
                    bad.append("result %s is not a %s" % (brief(r), u.tname))
                elif ru.vec != vec:
                    bad.append("result unit %s does not carry currency %s" %
                               (r["u"], target))
                elif val(r) * ru.factor != value:
                    bad.append("value %s %s, expected exactly %s (amount x "
                               "rate%s)" % (val(r), r["u"], value / ru.factor,
                                            " inverted" if form == "div"
                                            else ""))
                if r["at"] not in EXACT_TYPES:
                    bad.append("amount held as %s" % r["at"])
            if bad:
                chk.violation("%s %s %s rate %s->%s: %s" %
                              (val(p), sym, form, a, b, "; ".join(bad)), wit,
                              "price-value")
            else:
                chk.sample(dict(info=info, got=brief(r)))
        subs.append((steps, judge))
    # late declarations: a price whose target unit does not exist yet is
    # refused; once that unit is declared the very same operation, with the
    # same rate object, must succeed (nothing may remember the refusal)
    late = 0
    for (xt, cur, xu), sym in sorted(declared.items()):
        if late >= 3:
            break
        if "#" in xu or sym is None:
            continue
        for tgt in CURS:
            if tgt == cur:
                continue
            # no unit of the price type carries (tgt, any unit of xt) yet
            if any((xt, tgt, xu2) in declared for xu2 in XTYPES[xt]):
                continue
            late += 1
            form = rng.choice(["mul", "rmul", "div"])
            ra = F(rng.randint(1, 10 ** 6), 10 ** rng.randint(1, 4))
            a, b = (tgt, cur) if form == "div" else (cur, tgt)
            amount = rand_fraction(rng, small=True)
            e = {"mul": OP("*", V("p"), V("x")),
                 "rmul": OP("*", V("x"), V("p")),
                 "div": OP("/", V("p"), V("x"))}[form]
            steps = [{"id": "x", "k": "x",
                      "e": ["c", XR, [U(a), ["i", 1], U(b), num(ra)]]},
                     {"id": "p", "k": "p", "e": Q(num(amount), sym)},
                     {"k": "before", "e": e},
                     {"id": "nu", "k": "nu",
                      "e": M(V(tnames[xt]), "derive_unit_from",
                             U(tgt), U(xu))},
                     {"k": "after", "e": e},
                     {"k": "again", "e": e}]
            declared[(xt, tgt, xu)] = None      # taken for later iterations

            def judge_late(obs, steps=steps, sym=sym, form=form, tgt=tgt,
                           xu=xu, amount=amount, tname=tnames[xt]):
                if not obs or "after" not in obs:
                    chk.inconclusive_because("late declaration not observed")
                    return
                xr, p = parse_rate(obs.get("x")), obs.get("p", {})
                nu = obs.get("nu", {})
                if xr is None or p.get("k") != "Q" or nu.get("k") != "U":
                    chk.count("late declaration: operands not constructed")
                    return
                chk.case((wid, "late", sym, tgt, form))
                chk.count("price|target unit declared after a refusal")
                wit = dict(obs=obs, steps=steps, world=wid)
                if not is_exc(obs.get("before"), "QuantityError"):
                    chk.violation("no %s/%s unit declared: expected "
                                  "QuantityError, got %s" %
                                  (tgt, xu, brief(obs.get("before"))), wit,
                                  "price-undeclared")
                    return
                factor = xr["um"] / xr["ta"] if form == "div" \
                    else xr["ta"] / xr["um"]
                want = val(p) * factor
                for key in ("after", "again"):
                    r = obs.get(key, {})
                    if r.get("k") != "Q" or r["u"] != nu.get("sym") or \
                            r["t"] != tname or val(r) != want:
                        chk.violation(
                            "%s %s %s rate, after %s was declared: got %s, "
                            "expected %s %s" % (val(p), sym, form,
                                                nu.get("sym"), brief(r),
                                                want, nu.get("sym")), wit,
                            "price-value")
                        return
            subs.append((steps, judge_late))
            break
    return world_program(chk, plan, subs, wid, extra_pre=pre)


def run(chk, R, tier, seed):
    rng = random.Random("C10-%d" % seed)
    for c in ("money|mul", "money|rmul", "money|div", "money|mismatch-mul",
              "money|mismatch-div", "price|declared target",
              "price|undeclared target", "price|mismatching currency",
              "price|no-money", "price|order mul", "price|order rmul",
              "price|order div", "worlds", "rate object|inverted",
              "rate object|product",
              "price|target unit declared after a refusal",
              "results within 0.0000005 of a (half) multiple of "
              "the target fraction, not on it"):
        chk.require(c)
    for mode in RM.MODES:
        chk.require("mode|%s|tie" % mode)
    w = predefined_world(CURS)
    prelude = currency_steps(CURS)
    wrap = lambda jd: (lambda obs, rec, case: jd(obs))      # noqa: E731
    n = 8000 if tier == "quick" else 60000
    cases = []
    for i in range(n):
        st, jd = money_sub(chk, rng, w, RM.MODES[i % 8])
        cases.append(Case(st, wrap(jd)))
    run_cases(chk, R, cases, per_program=100, prelude=prelude)
    nw = 100 if tier == "quick" else 1200
    run_cases(chk, R, [price_world(chk, rng, i) for i in range(nw)])
