"""C03 -- addition, subtraction and comparison never mix quantity types."""
from __future__ import annotations

import random
from fractions import Fraction as F

from ..cases import Case, run_cases, world_program, Q, U, V, M, OP
from ..ctl import num, val, is_exc, EXACT_TYPES
from ..gen import random_plan, rand_fraction, enc_amount
from ..models import si_table as SI
from ..models.world import predefined_world, add_money
from ..oracle import brief
from ..ops import derived, computed

RULE = ("every ordered pair of distinct predefined types (+ Money) x "
        "{+,-,<,<=,>,>=,==,!=}; every type x six kinds of plain number x "
        "both operand orders; same-type pairs/triples in mixed units "
        "(predefined and synthetic worlds) for sum/difference/negation/"
        "distribution/sum(); non-trivial = operands differ in type, or in "
        "unit for same-type cases; distinct by (world, operands, operator)")
ANCHORS = ("Quantity.__add__", "Quantity.__sub__", "Quantity.__rsub__",
           "Quantity._compare", "Quantity.__eq__", "Quantity.__neg__", "sum")

ORDER_OPS = ["<", "<=", ">", ">="]
NUMBERS = {
    "int": ["i", 3], "float": ["fl", (2.5).hex()], "Fraction": ["F", 7, 3],
    "Decimal": ["D", "1.25"], "StdDecimal": ["SD", "4.5"],
    "complex": ["cx", 1.0, 2.0],
    "bool": ["b", True], "bool-false": ["b", False],
    "float-inf": ["fl", "inf"], "float-neg-inf": ["fl", "-inf"],
    "float-nan": ["fl", "nan"], "float-tiny": ["fl", (5e-324).hex()],
    "float-huge": ["fl", (1.7e308).hex()],
    "StdDecimal-inf": ["SD", "Infinity"], "int-huge": ["i", 10 ** 400],
    "int-zero": ["i", 0], "float-zero": ["fl", (0.0).hex()],
    "Decimal-zero": ["D", "0"], "Fraction-zero": ["F", 0, 1],
}


def mixed_types_cases(chk, rng, w):
    types = [t for t in w.types]
    cases = []
    for t1 in types:
        for t2 in types:
            if t1 == t2:
                continue
            s1 = rng.choice([u.sym for u in w.units_of(t1)])
            s2 = rng.choice([u.sym for u in w.units_of(t2)])
            za = rng.random() < 0.3
            a = Q(num(F(0) if za else rand_fraction(rng, small=True)), s1)
            b = Q(num(F(0) if za else rand_fraction(rng, small=True)), s2)
            steps = [{"id": "a", "e": a}, {"id": "b", "e": b}]
            for op in ["+", "-"] + ORDER_OPS + ["==", "!="]:
                steps.append({"k": op, "e": OP(op, V("a"), V("b"))})

            def judge(obs, rec, case, t1=t1, t2=t2, steps=steps, za=za):
                if not obs:
                    chk.inconclusive_because("mixed-type case not observed")
                    return
                chk.case(("mixed", t1, t2))
                if za:
                    chk.count("mixed types with zero amounts")
                for op in ["+", "-"] + ORDER_OPS:
                    chk.count("mixed types|" + op)
                    if not is_exc(obs.get(op), "IncompatibleUnitsError"):
                        chk.violation(
                            "%s %s %s: expected IncompatibleUnitsError, got "
                            "%s" % (t1, op, t2, brief(obs.get(op))),
                            dict(obs=obs, steps=steps), "mixed-types")
                for op, want in (("==", False), ("!=", True)):
                    chk.count("mixed types|" + op)
                    r = obs.get(op, {})
                    if r.get("k") != "bool" or r["v"] is not want:
                        chk.violation("%s %s %s: expected %s, got %s" %
                                      (t1, op, t2, want, brief(r)),
                                      dict(obs=obs, steps=steps),
                                      "mixed-types-eq")
            cases.append(Case(steps, judge))
    return cases


def mixed_sub(chk, rng, w, wid, t1, t2, plan=None, related=False):
    """the same for a world program: (steps, judge(obs))"""
    s1 = rng.choice([u.sym for u in w.units_of(t1)])
    s2 = rng.choice([u.sym for u in w.units_of(t2)])
    a = Q(num(rand_fraction(rng, small=True)), s1)
    b = Q(num(rand_fraction(rng, small=True)), s2)
    steps = [{"id": "a", "e": a}, {"id": "b", "e": b}]
    for op in ["+", "-"] + ORDER_OPS + ["==", "!="]:
        steps.append({"k": op, "e": OP(op, V("a"), V("b"))})
    # the routes programs take to the same comparisons
    steps.append({"k": "sorted", "e": ["un", "sorted", ["l", [V("a"),
                                                             V("b")]]]})
    steps.append({"k": "in", "e": ["in", V("a"), ["l", [V("b")]]]})
    steps.append({"k": "sum", "e": ["sum", ["l", [V("a"), V("b")]]]})

    def judge(obs):
        if not obs:
            chk.inconclusive_because("mixed-type case not observed")
            return
        chk.case((wid, "mixed", t1, t2, s1, s2))
        if not is_exc(obs.get("sorted"), "IncompatibleUnitsError") or \
                not is_exc(obs.get("sum"), "IncompatibleUnitsError") or \
                obs.get("in", {}).get("v") is not False:
            chk.violation("%s: %s (%s) with %s (%s): sorted() gives %s, "
                          "quantity.sum() %s, `a in [b]` %s" %
                          (wid, t1, s1, t2, s2, brief(obs.get("sorted")),
                           brief(obs.get("sum")), brief(obs.get("in"))),
                          dict(obs=obs, steps=steps, world=wid),
                          "mixed-types")
            return
        chk.count("mixed types in worlds")
        if related:
            chk.count("a subclass mixed with its parent type")
        wit = dict(obs=obs, steps=steps, world=wid)
        if plan is not None:
            wit["declarations"] = plan
        for op in ["+", "-"] + ORDER_OPS:
            if not is_exc(obs.get(op), "IncompatibleUnitsError"):
                chk.violation("%s: %s (%s) %s %s (%s): expected "
                              "IncompatibleUnitsError, got %s" %
                              (wid, t1, s1, op, t2, s2, brief(obs.get(op))),
                              wit, "mixed-types")
                return
        for op, want in (("==", False), ("!=", True)):
            r = obs.get(op, {})
            if r.get("k") != "bool" or r["v"] is not want:
                chk.violation("%s: %s (%s) %s %s (%s): expected %s, got %s" %
                              (wid, t1, s1, op, t2, s2, want, brief(r)), wit,
                              "mixed-types-eq")
                return
    return steps, judge


def number_cases(chk, rng, w):
    cases = []
    for t in w.types:
        s = rng.choice([u.sym for u in w.units_of(t)])
        for nk, ne in NUMBERS.items():
            steps = [{"id": "q", "e": Q(num(rand_fraction(rng, small=True)),
                                        s)}]
            for op in ["+", "-"] + ORDER_OPS + ["==", "!="]:
                steps.append({"k": "L" + op, "e": OP(op, ne, V("q"))})
                steps.append({"k": "R" + op, "e": OP(op, V("q"), ne)})

            def judge(obs, rec, case, t=t, nk=nk, steps=steps):
                if not obs:
                    chk.inconclusive_because("number case not observed")
                    return
                chk.case(("number", t, nk))
                for side in "LR":
                    for op in ["+", "-"] + ORDER_OPS:
                        chk.count("number %s|%s" %
                                  ("left" if side == "L" else "right", op))
                        r = obs.get(side + op)
                        if not is_exc(r, "TypeError"):
                            chk.violation(
                                "%s %s with a plain %s (%s operand): expected "
                                "TypeError, got %s" %
                                (t, op, nk, "left" if side == "L" else
                                 "right", brief(r)),
                                dict(obs=obs, steps=steps), "number-operand")
                    for op, want in (("==", False), ("!=", True)):
                        r = obs.get(side + op, {})
                        if r.get("k") != "bool" or r["v"] is not want:
                            chk.violation(
                                "%s %s plain %s: expected %s, got %s" %
                                (t, op, nk, want, brief(r)),
                                dict(obs=obs, steps=steps), "number-eq")
            cases.append(Case(steps, judge))
    return cases


def same_type_sub(chk, rng, w, wid, plan=None):
    """-> (steps, judge(obs)) for one same-type triple"""
    cands = [t for t in w.types.values()
             if t.has_ref and len(w.units_of(t.name)) >= 1]
    t = rng.choice(cands)
    us = [u.sym for u in w.units_of(t.name)]
    sa, sb, sc = (rng.choice(us) for _ in range(3))
    xa, xb, xc = (rand_fraction(rng, small=rng.random() < 0.7)
                  for _ in range(3))
    k = rand_fraction(rng, small=True, allow_zero=False)
    ke = num(k)
    if rng.random() < 0.25:
        # a float factor counts with its exact binary value, also when the
        # amounts are held as fractions
        kf = rng.choice([0.3, 0.1, 2.5, 7.25, 1e-3, 1 / 3, 123.456])
        k, ke = F(kf), ["fl", kf.hex()]
    kinds = ("D", "F", "int")
    mk = lambda x, s_: computed(rng, w, x, s_) or derived(  # noqa: E731
        rng, Q(enc_amount(rng, x, kinds)[0], s_), s_)
    steps = [{"id": "a", "k": "a", "e": mk(xa, sa)},
             {"id": "b", "k": "b", "e": mk(xb, sb)},
             {"id": "c", "k": "c", "e": mk(xc, sc)},
             {"k": "a+b", "e": OP("+", V("a"), V("b"))},
             {"k": "b+a", "e": OP("+", V("b"), V("a"))},
             {"k": "a-b", "e": OP("-", V("a"), V("b"))},
             {"k": "a+-b", "e": OP("+", V("a"), ["un", "neg", V("b")])},
             {"k": "(a+b)+c", "e": OP("+", OP("+", V("a"), V("b")), V("c"))},
             {"k": "a+(b+c)", "e": OP("+", V("a"), OP("+", V("b"), V("c")))},
             {"k": "a+-a", "e": OP("+", V("a"), ["un", "neg", V("a")])},
             {"k": "-a", "e": ["un", "neg", V("a")]},
             {"k": "abs", "e": ["un", "abs", V("a")]},
             {"k": "+a", "e": ["un", "pos", V("a")]},
             {"k": "k(a+b)", "e": OP("*", ke, OP("+", V("a"), V("b")))},
             {"k": "ka+kb", "e": OP("+", OP("*", ke, V("a")),
                                    OP("*", V("b"), ke))},
             {"k": "sum", "e": ["sum", ["l", [V("a"), V("b"), V("c")]]]},
             {"k": "sum0", "e": ["sum", ["l", []]]},
             {"k": "sum1", "e": ["sum", ["l", [V("b")]]]},
             {"k": "sumstart", "e": ["c", ["g", "quantity:sum"],
                                     [["l", [V("b"), V("c")]], V("a")]]},
             # augmented assignment computes the same sum / difference ...
             {"k": "a+=b", "e": OP("+=", V("a"), V("b"))},
             {"k": "a-=b", "e": OP("-=", V("a"), V("b"))},
             # ... and after all of the above the operands are what they were
             {"k": "a'", "e": V("a")}, {"k": "b'", "e": V("b")},
             {"k": "c'", "e": V("c")}]
    quantized = t.quantum is not None

    def judge(obs):
        if not obs or "a" not in obs:
            chk.inconclusive_because("same-type case not observed")
            return
        a, b, c = obs["a"], obs["b"], obs["c"]
        if any(x.get("k") != "Q" for x in (a, b, c)):
            chk.violation("constructing operands failed",
                          dict(obs=obs, steps=steps), "construct")
            return
        chk.case((wid, t.name, sa, sb, sc, str(xa), str(xb), str(xc)),
                 nontrivial=len({sa, sb, sc}) > 1)
        if len({sa, sb, sc}) == 3:
            chk.count("triples with three distinct units")
        if quantized:
            chk.count("quantized type")
        chk.count("same-type triples")
        ra, rb, rc = (w.refval(val(x), x["u"]) for x in (a, b, c))
        bad = []

        def expect(key, refval, unit, exact=True):
            r = obs.get(key, {})
            if r.get("k") != "Q":
                bad.append("%s: %s" % (key, brief(r)))
                return
            if r["u"] != unit or r["t"] != t.name:
                bad.append("%s: unit/type %s %s, expected %s %s" %
                           (key, r["t"], r["u"], t.name, unit))
            if r["at"] not in EXACT_TYPES:
                bad.append("%s: amount is a %s" % (key, r["at"]))
            got = w.refval(val(r), r["u"])
            if exact and got != refval:
                bad.append("%s: reference value %s, expected %s" %
                           (key, got, refval))
        expect("a+b", ra + rb, sa)
        expect("b+a", ra + rb, sb)
        expect("a-b", ra - rb, sa)
        expect("a+-b", ra - rb, sa)
        expect("(a+b)+c", ra + rb + rc, sa)
        expect("a+(b+c)", ra + rb + rc, sa)
        expect("a+-a", F(0), sa)
        expect("-a", -ra, sa)
        expect("abs", abs(ra), sa)
        expect("+a", ra, sa)
        expect("sum", ra + rb + rc, sa)
        expect("sum1", rb, sb)
        expect("sumstart", ra + rb + rc, sa)
        expect("a+=b", ra + rb, sa)
        expect("a-=b", ra - rb, sa)
        for nm, x in (("a", a), ("b", b), ("c", c)):
            after = obs.get(nm + "'", {})
            if after.get("k") != "Q" or after["u"] != x["u"] or \
                    after["a"] != x["a"] or after["t"] != x["t"]:
                bad.append("operand %s is %s after the operations, was %s" %
                           (nm, brief(after), brief(x)))
        if not quantized:
            expect("k(a+b)", k * (ra + rb), sa)
            expect("ka+kb", k * (ra + rb), sa)
        s0 = obs.get("sum0", {})
        if s0.get("k") != "N" or val(s0) != 0:
            bad.append("sum([]) = %s" % brief(s0))
        if bad:
            wit = dict(obs=obs, steps=steps, world=wid)
            if plan is not None:
                wit["declarations"] = plan
            chk.violation("%s: %s" % (t.name, "; ".join(bad[:4])), wit,
                          "same-type-arith")
        else:
            chk.sample(dict(a=brief(a), b=brief(b), c=brief(c),
                            sum=brief(obs["sum"])))
    return steps, judge


def run(chk, R, tier, seed):
    rng = random.Random("C03-%d" % seed)
    for op in ["+", "-"] + ORDER_OPS:
        chk.require("mixed types|" + op)
        chk.require("number left|" + op)
        chk.require("number right|" + op)
    chk.require("mixed types with zero amounts")
    chk.require("triples with three distinct units")
    chk.require("same-type triples")
    chk.require("quantized type")
    chk.require("worlds")
    chk.require("a subclass mixed with its parent type")
    w = predefined_world({"EUR": 2, "JPY": 0})
    prelude = [{"e": M(["g", "quantity.money:Money"], "register_currency",
                       ["s", c])} for c in ("EUR", "JPY")]
    cases = mixed_types_cases(chk, rng, w) + number_cases(chk, rng, w)
    chk.exhaustive["ordered pairs of distinct predefined types (+Money)"] = True
    n = 6000 if tier == "quick" else 60000
    for _ in range(n):
        st, jd = same_type_sub(chk, rng, w, "predefined")
        cases.append(Case(st, (lambda obs, rec, case, jd=jd: jd(obs))))
    run_cases(chk, R, cases, per_program=80, prelude=prelude)
    nw = 60 if tier == "quick" else 800
    cases = []
    for wi in range(nw):
        plan, ww = random_plan(rng, noref=True)
        planj = [d.to_json() for d in plan]
        subs = [same_type_sub(chk, rng, ww, "world%d" % wi, planj)
                for _ in range(15)]
        # different types of the world mixed; a subclass that has a
        # reference unit of its own is another type than its parent
        fam = [(d.p["name"], d.p["parent"]) for d in plan
               if d.kind == "subclass" and d.p.get("ref")]
        withu = [t for t in ww.types if ww.units_of(t)]
        for j in range(5):
            if fam and j < 3:
                t1, t2 = rng.choice(fam)
                if j % 2:
                    t1, t2 = t2, t1
            elif len(withu) >= 2:
                t1, t2 = rng.sample(withu, 2)
            else:
                continue
            if t1 == t2 or not ww.units_of(t1) or not ww.units_of(t2):
                continue
            subs.append(mixed_sub(chk, rng, ww, "world%d" % wi, t1, t2,
                                  planj, related=(t1, t2) in fam or
                                  (t2, t1) in fam))
        cases.append(world_program(chk, plan, subs, "world%d" % wi))
    run_cases(chk, R, cases, preload=("quantity",))
    # money of two currencies inside an active converter: then EUR and USD
    # are convertible units of one type, and the same rules apply (the rate
    # is a short exact number both ways, so "reference value" is the amount
    # in EUR; results are rounded once to the left operand's fraction)
    from ..models import rounding as RM
    MC = ["g", "quantity.money:MoneyConverter"]
    cases = []
    for i in range(12 if tier == "quick" else 150):
        rate = rng.choice([F(5, 4), F(2), F(1, 2), F(4), F(8, 5), F(4, 5),
                           F(5, 8), F(25, 2)])      # USD per EUR
        per = {"EUR": F(1), "USD": 1 / rate}         # value in EUR
        pre = [{"e": M(["g", "quantity.money:Money"], "register_currency",
                       ["s", c])} for c in ("EUR", "USD")] + [
            {"id": "mc", "e": ["c", MC, [U("EUR")]]},
            {"e": M(V("mc"), "update", ["none"],
                    ["l", [["t", [U("USD"), num(rate), ["i", 1]]]]])}]
        body, subs = [], []
        for j in range(12):
            ca, cb = rng.choice([("EUR", "USD"), ("USD", "EUR")])
            xa = F(rng.randint(-20000, 20000), 100)
            xb = F(rng.randint(-20000, 20000), 100)
            r = rng.random()
            if r < 0.25:
                xb = F(0)
            elif r < 0.4:
                xa = F(0)
            elif r < 0.5:
                xb = -xa * per[ca] / per[cb]        # the sum is zero
            body += [{"k": "m%d.add" % j,
                      "e": OP("+", Q(num(xa), ca), Q(num(xb), cb))},
                     {"k": "m%d.sub" % j,
                      "e": OP("-", Q(num(xa), ca), Q(num(xb), cb))},
                     {"k": "m%d.lt" % j,
                      "e": OP("<", Q(num(xa), ca), Q(num(xb), cb))}]
            subs.append((j, ca, cb, xa, xb))
        steps = pre + [{"with": V("mc"), "body": body, "k": "with"}]

        def judge(obs, rec, case, subs=subs, per=per, rate=rate, steps=steps):
            if obs is None:
                chk.inconclusive_because("money converter case died")
                return
            for j, ca, cb, xa, xb in subs:
                xb_r = RM.round_to(xb, F(1, 100), RM.DEFAULT_MODE)
                xa_r = RM.round_to(xa, F(1, 100), RM.DEFAULT_MODE)
                eq = xb_r * per[cb] / per[ca]       # xb in currency ca
                chk.case(("money under converter", str(rate), ca, cb,
                          str(xa), str(xb)))
                chk.count("sums across currencies under a converter")
                if eq == 0:
                    chk.count("right operand converts to zero")
                bad = []
                for key, want in (("add", xa_r + eq), ("sub", xa_r - eq)):
                    want = RM.round_to(want, F(1, 100), RM.DEFAULT_MODE)
                    r = obs.get("m%d.%s" % (j, key), {})
                    if r.get("k") != "Q" or r["u"] != ca or \
                            val(r) != want:
                        bad.append("%s %s %s %s %s gives %s, expected %s %s"
                                   % (xa, ca, "+" if key == "add" else "-",
                                      xb, cb, brief(r), want, ca))
                lt = obs.get("m%d.lt" % j, {})
                if lt.get("v") is not (xa_r < eq):
                    bad.append("%s %s < %s %s is %s" % (xa, ca, xb, cb,
                                                        brief(lt)))
                if bad:
                    chk.violation("under a converter with 1 EUR = %s USD: %s"
                                  % (rate, "; ".join(bad[:3])),
                                  dict(obs={k: v for k, v in obs.items()
                                            if k.startswith("m%d." % j)},
                                       steps=steps[:4] + [
                                           {"with": V("mc"), "k": "with",
                                            "body": steps[-1]["body"][
                                                3 * j:3 * j + 3]}]),
                                  "same-type-arith")
        cases.append(Case(steps, judge, isolate=True))
    chk.require("right operand converts to zero")
    run_cases(chk, R, cases)
