"""C12 -- converter registration is last-in-first-out and restores prior
behaviour."""
from __future__ import annotations

import random
from fractions import Fraction as F

from ..cases import Case, run_cases, Q, U, V, M, OP
from ..ctl import num, val, is_exc
from ..oracle import brief

RULE = ("Money: all well-formed histories over {register c, unregister c, "
        "with c: ... leave normally / by exception} for two MoneyConverters "
        "with distinct constant rates, exhaustively up to a bounded length "
        "(real nested with statements, a marker exception), random histories "
        "to length 40 with three converters; the registry listing and a "
        "conversion are observed after every step. Other types: histories "
        "over {register f, register again, remove f} for three plain "
        "callables on a type without reference unit, exhaustive to a bounded "
        "length and random beyond. Non-trivial = history of length >= 2; "
        "distinct by history")
ANCHORS = ("MoneyMeta.register_converter", "MoneyMeta.remove_converter",
           "MoneyConverter.__enter__", "MoneyConverter.__exit__",
           "QuantityMeta.register_converter", "QuantityMeta.remove_converter",
           "QuantityMeta.registered_converters", "Quantity.equiv_amount")
LEVEL = "exploration"

MONEY = ["g", "quantity.money:Money"]
MC = ["g", "quantity.money:MoneyConverter"]
RATES = {"A": F(110, 100), "B": F(125, 100), "C": F(150, 100)}
# a second target currency that only some converters cover: the most recent
# converter decides, also when it has no rate for the pair
GBP = {"A": F(80, 100), "C": F(90, 100)}
# a twin of A: another converter object with exactly the same base currency
# and rates (two converters fed from one rate list); whatever "the same
# converter" means for removal, it must not confuse these two
RATES["T"] = RATES["A"]
GBP["T"] = GBP["A"]


def rename(h, m):
    """the history h with converter names mapped through m"""
    out = []
    for a in h:
        if a[0] == "with":
            out.append(("with", m.get(a[1], a[1]), rename(a[2], m), a[3]))
        else:
            out.append((a[0], m.get(a[1], a[1])))
    return tuple(out)


# ---------------------------------------------------------------- money

def enum_histories(maxlen, convs=("A", "B")):
    """all well-formed histories of total size 1..maxlen.
    actions: ('reg', c) ('unreg', c) ('with', c, body, leave)"""
    simple = [("reg", c) for c in convs] + [("unreg", c) for c in convs]
    memo = {}

    def seqs(n):
        if n in memo:
            return memo[n]
        if n == 0:
            memo[n] = [()]
            return memo[n]
        out = []
        for a in simple:
            for rest in seqs(n - 1):
                out.append((a,) + rest)
        for b in range(0, n - 1):
            for body in seqs(b):
                for rest in seqs(n - 2 - b):
                    for c in convs:
                        for leave in ("normal", "exc"):
                            out.append((("with", c, body, leave),) + rest)
        memo[n] = out
        return out
    res = []
    for n in range(1, maxlen + 1):
        res.extend(seqs(n))
    return res


def rand_history(rng, size, convs):
    out = []
    while size > 0:
        r = rng.random()
        if r < 0.35 or size < 2:
            out.append((rng.choice(["reg", "unreg", "unreg"]),
                        rng.choice(convs)))
            size -= 1
        else:
            b = rng.randint(0, min(size - 2, 8))
            out.append(("with", rng.choice(convs),
                        tuple(rand_history(rng, b, convs)),
                        rng.choice(["normal", "exc"])))
            size -= 2 + b
    return tuple(out)


def hist_size(h):
    return sum(1 if a[0] != "with" else 2 + hist_size(a[2]) for a in h)


def hist_str(h):
    out = []
    for a in h:
        if a[0] == "with":
            out.append("with %s{%s}%s" % (a[1], hist_str(a[2]),
                                          "!" if a[3] == "exc" else ""))
        else:
            out.append("%s %s" % (a[0], a[1]))
    return "; ".join(out)


def money_case(chk, h, convs, label):
    """build program + model trace for history h"""
    counter = [0]
    expected = {}       # key -> dict(kind, ...)

    def probe():
        counter[0] += 1
        k = "p%d" % counter[0]
        return k, [
            {"k": k + ".reg", "e": ["un", "list", M(MONEY,
                                                    "registered_converters")]},
            {"k": k + ".conv", "e": M(Q(["i", 100], "EUR"), "convert",
                                      U("USD"))},
            {"k": k + ".eq", "e": OP("==", Q(["i", 100], "EUR"),
                                     Q(["i", 100], "USD"))},
            {"k": k + ".lt", "e": OP("<", Q(["i", 100], "USD"),
                                     Q(["i", 100], "EUR"))},
            {"k": k + ".add", "e": OP("+", Q(["i", 0], "USD"),
                                      Q(["i", 100], "EUR"))},
            {"k": k + ".gbp", "e": M(Q(["i", 100], "EUR"), "convert",
                                     U("GBP"))},
            # an amount whose converted value is zero is an answer, too
            {"k": k + ".zero", "e": M(Q(["i", 0], "EUR"), "convert",
                                      U("USD"))},
            # further routes to the same converter: the converting
            # constructor, >=, and subtraction
            {"k": k + ".parse", "e": ["c", MONEY, [["s", "100 EUR"],
                                                   U("USD")]]},
            {"k": k + ".ge", "e": OP(">=", Q(["i", 100], "EUR"),
                                     Q(["i", 100], "USD"))},
            {"k": k + ".sub", "e": OP("-", Q(["i", 500], "USD"),
                                      Q(["i", 100], "EUR"))}]

    def build(actions, stack):
        steps = []
        for a in actions:
            counter[0] += 1
            k = "a%d" % counter[0]
            if a[0] == "reg":
                steps.append({"k": k, "e": M(MONEY, "register_converter",
                                             V("$" + a[1]))})
                stack.append(a[1])
                expected[k] = dict(kind="ok", what="register %s" % a[1])
            elif a[0] == "unreg":
                steps.append({"k": k, "e": M(MONEY, "remove_converter",
                                             V("$" + a[1]))})
                if stack and stack[-1] == a[1]:
                    stack.pop()
                    expected[k] = dict(kind="ok", what="unregister %s" % a[1])
                else:
                    expected[k] = dict(kind="raise",
                                       what="unregister %s (not the most "
                                       "recent)" % a[1])
            else:
                _, c, body, leave = a
                stack.append(c)
                pk, ps = probe()
                expected[pk] = dict(kind="probe", stack=list(stack))
                inner = [{"k": k + ".bound", "e": ["is", V("bound"),
                                                    V("$" + c)]}] + ps + \
                    build(body, stack)
                expected[k + ".bound"] = dict(kind="bound", what=c)
                # __exit__ is an unregister attempt
                if stack and stack[-1] == c:
                    stack.pop()
                    expected[k] = dict(kind="with", leave=leave, exit_ok=True,
                                       what="with %s" % c)
                else:
                    expected[k] = dict(kind="with", leave=leave,
                                       exit_ok=False, what="with %s" % c)
                steps.append({"with": V("$" + c), "body": inner, "k": k,
                              "id": "bound",
                              "raise": "marker" if leave == "exc" else None})
            pk, ps = probe()
            expected[pk] = dict(kind="probe", stack=list(stack))
            steps.extend(ps)
        return steps

    pre = [{"e": M(MONEY, "register_currency", ["s", c])}
           for c in ("EUR", "USD", "GBP")]
    for c in convs:
        pre.append({"id": "$" + c, "e": ["c", MC, [U("EUR")]]})
        pre.append({"name_mc": [V("$" + c), c]})
        specs = [["t", [U("USD"), num(RATES[c]), ["i", 1]]]]
        if c in GBP:
            specs.append(["t", [U("GBP"), num(GBP[c]), ["i", 1]]])
        pre.append({"e": M(V("$" + c), "update", ["none"], ["l", specs])})
    pk, ps = probe()
    expected[pk] = dict(kind="probe", stack=[])
    stack = []
    steps = pre + ps + build(h, stack)
    final_stack = list(stack)
    hs = hist_str(h)

    def judge(obs, rec, case):
        if obs is None:
            chk.inconclusive_because("history died: %s (%s)" %
                                     (hs, rec.get("died")))
            return
        chk.case((label, hs), nontrivial=hist_size(h) >= 2)
        chk.count("histories|" + label)
        bad = []
        for k, exp in expected.items():
            if exp["kind"] == "probe":
                reg = obs.get(k + ".reg")
                want = list(reversed(exp["stack"]))
                if reg is None or reg.get("k") != "T":
                    bad.append("%s: registry listing failed: %s" %
                               (k, brief(reg)))
                else:
                    got = [x.get("name") for x in reg["items"]]
                    if got != want:
                        bad.append("%s: registered converters %s, expected "
                                   "%s" % (k, got, want))
                conv = obs.get(k + ".conv")
                eq = obs.get(k + ".eq", {})
                if not exp["stack"]:
                    chk.count("conversions with empty stack")
                    if not is_exc(conv, "UnitConversionError"):
                        bad.append("%s: no converter active but conversion "
                                   "gives %s" % (k, brief(conv)))
                    if eq.get("v") is not False:
                        bad.append("%s: no converter active but 100 EUR == "
                                   "100 USD is %s" % (k, brief(eq)))
                    for kk in (".lt", ".add", ".zero", ".parse", ".ge",
                               ".sub"):
                        if not is_exc(obs.get(k + kk), "UnitConversionError"):
                            bad.append("%s: no converter active but %s gives "
                                       "%s" % (k, kk[1:],
                                               brief(obs.get(k + kk))))
                else:
                    top = exp["stack"][-1]
                    want_amt = 100 * RATES[top]
                    if len(set(exp["stack"])) > 1:
                        chk.count("conversions with several converters "
                                  "active")
                    if conv is None or conv.get("k") != "Q" or \
                            val(conv) != want_amt:
                        who = [c for c, r in RATES.items()
                               if conv and conv.get("k") == "Q" and
                               val(conv) == 100 * r]
                        if who and who[0] != top:
                            chk.count("conversions answered by a non-top "
                                      "converter")
                        bad.append("%s: most recent converter is %s (100 EUR "
                                   "= %s USD) but conversion gives %s%s" %
                                   (k, top, want_amt, brief(conv),
                                    " (rate of %s)" % who[0] if who else ""))
                    # the other operations that consult converters must use
                    # the same (most recent) one: 0 USD + 100 EUR in USD,
                    # 100 USD < 100 EUR (every rate is > 1)
                    add = obs.get(k + ".add")
                    if add is None or add.get("k") != "Q" or \
                            val(add) != want_amt or add["u"] != "USD":
                        bad.append("%s: 0 USD + 100 EUR gives %s, the most "
                                   "recent converter %s says %s USD" %
                                   (k, brief(add), top, want_amt))
                    gbp = obs.get(k + ".gbp")
                    if top in GBP:
                        if gbp is None or gbp.get("k") != "Q" or \
                                val(gbp) != 100 * GBP[top]:
                            bad.append("%s: EUR->GBP must be answered by the "
                                       "most recent converter %s (%s), got %s"
                                       % (k, top, 100 * GBP[top], brief(gbp)))
                    else:
                        chk.count("most recent converter has no rate for "
                                  "the pair")
                        if not is_exc(gbp, "UnitConversionError"):
                            bad.append("%s: the most recent converter %s has "
                                       "no EUR->GBP rate, but the conversion "
                                       "gives %s" % (k, top, brief(gbp)))
                    pr = obs.get(k + ".parse")
                    if pr is None or pr.get("k") != "Q" or \
                            val(pr) != want_amt or pr["u"] != "USD":
                        bad.append("%s: Money('100 EUR', USD) gives %s, the "
                                   "most recent converter %s says %s USD" %
                                   (k, brief(pr), top, want_amt))
                    if obs.get(k + ".ge", {}).get("v") is not True:
                        bad.append("%s: 100 EUR >= 100 USD is %s" %
                                   (k, brief(obs.get(k + ".ge"))))
                    sb = obs.get(k + ".sub")
                    if sb is None or sb.get("k") != "Q" or \
                            val(sb) != 500 - want_amt or sb["u"] != "USD":
                        bad.append("%s: 500 USD - 100 EUR gives %s, the most "
                                   "recent converter %s says %s USD" %
                                   (k, brief(sb), top, 500 - want_amt))
                    zero = obs.get(k + ".zero")
                    chk.count("zero amounts converted by the active "
                              "converter")
                    if zero is None or zero.get("k") != "Q" or \
                            val(zero) != 0 or zero["u"] != "USD":
                        bad.append("%s: 0 EUR -> USD gives %s, the most "
                                   "recent converter %s says 0 USD" %
                                   (k, brief(zero), top))
                    lt = obs.get(k + ".lt", {})
                    if lt.get("v") is not True:
                        bad.append("%s: 100 USD < 100 EUR is %s" %
                                   (k, brief(lt)))
            elif exp["kind"] == "bound":
                r = obs.get(k, {})
                if r.get("v") is not True:
                    bad.append("%s: `with %s as x`: x is not the converter" %
                               (k, exp["what"]))
            elif exp["kind"] == "ok":
                r = obs.get(k, {})
                if r.get("k") == "E":
                    bad.append("%s: %s raised %s" % (k, exp["what"],
                                                     brief(r)))
            elif exp["kind"] == "raise":
                r = obs.get(k, {})
                chk.count("rejected removals")
                if r.get("k") != "E":
                    bad.append("%s: %s did not raise" % (k, exp["what"]))
            else:
                r = obs.get(k, {})
                if exp["leave"] == "exc":
                    chk.count("exceptional leaves")
                if exp["exit_ok"]:
                    if exp["leave"] == "normal":
                        ok = r.get("k") == "with" and r["left"] == "normal" \
                            and not r.get("swallowed")
                    else:
                        ok = r.get("k") == "with" and r["left"] == "marker"
                    if not ok:
                        bad.append("%s: %s left %s: observed %s" %
                                   (k, exp["what"], exp["leave"], brief(r)
                                    if r.get("k") == "E" else r))
                else:
                    chk.count("failing exits")
                    if r.get("k") != "E" or r.get("phase") != "exit":
                        bad.append("%s: leaving %s must fail (not the most "
                                   "recent converter): observed %s" %
                                   (k, exp["what"], r))
        if not final_stack:
            chk.count("histories ending with an empty stack")
        if bad:
            mech = "non-top" if any("rate of" in b for b in bad) else "lifo"
            chk.violation("history [%s]: %s" % (hs, "; ".join(bad[:3])),
                          dict(history=hs, problems=bad[:12], steps=steps,
                               obs=obs), mech)
        else:
            chk.sample(dict(history=hs, final_stack=final_stack))
    return Case(steps, judge, isolate=True)


# ---------------------------------------------------------------- generic

FN = {  # name -> table {(from, to): factor}
    "f1": {("t0", "t1"): F(2)},
    "f2": {("t0", "t1"): F(3), ("t0", "t2"): F(5)},
    "f3": {("t0", "t2"): F(7), ("t1", "t2"): F(11)},
}


def generic_case(chk, h, label, bound=False, tables=False):
    """h: sequence of ('reg'|'rem', fname); bound: every registration and
    removal passes a freshly made bound method of the callable (equal to,
    but not the same object as, the one passed before); tables: the
    converters are the library's own TableConverter objects (which answer
    the tabulated pair and its reverse, and None otherwise) instead of
    harness callables"""
    ref = (lambda f: ["a", V("$" + f), "conv"]) if bound else \
        (lambda f: V("$" + f))
    if bound:
        label += "-bound-method"
    if tables:
        label += "-table-converters"
    steps = [{"cls": {"name": "Noref", "kw": {}}, "id": "Noref"}]
    for s in ("t0", "t1", "t2"):
        steps.append({"e": M(V("Noref"), "new_unit", ["s", s])})
    for name, table in FN.items():
        if tables:
            steps.append({"id": "$" + name, "e": [
                "c", ["g", "quantity:TableConverter"],
                [["dict", [[["t", [U(a), U(b)]], ["t", [num(f), ["i", 0]]]]
                           for (a, b), f in table.items()]]]]})
            steps.append({"name_mc": [V("$" + name), name]})
            continue
        steps.append({"id": "$" + name, "e": ["convfn", {
            "name": name,
            "table": [[a, b, num(f), ["i", 0]] for (a, b), f in
                      table.items()]}]})

    def factor(f, a, b):
        """what converter f answers for a -> b (None: nothing)"""
        if (a, b) in FN[f]:
            return FN[f][(a, b)]
        if tables and (b, a) in FN[f]:
            return 1 / FN[f][(b, a)]
        return None
    expected = {}
    reg = []
    cnt = [0]

    def probe():
        cnt[0] += 1
        k = "p%d" % cnt[0]
        expected[k] = dict(kind="probe", reg=list(reg))
        st = [{"k": k + ".reg", "e": ["un", "list",
                                      M(V("Noref"), "registered_converters")]}]
        for a, b in (("t0", "t1"), ("t0", "t2"), ("t1", "t2"), ("t1", "t0")):
            st.append({"k": "%s.%s%s" % (k, a, b),
                       "e": M(Q(["i", 10], a), "convert", U(b))})
        st.append({"k": k + ".zero", "e": M(Q(["i", 0], "t0"), "convert",
                                            U("t1"))})
        return st
    steps += probe()
    for i, (act, f) in enumerate(h):
        k = "a%d" % i
        if act == "reg":
            steps.append({"k": k, "e": M(V("Noref"), "register_converter",
                                         ref(f))})
            if f in reg:
                expected[k] = dict(kind="ok", again=True)
            else:
                reg.append(f)
                expected[k] = dict(kind="ok")
        else:
            steps.append({"k": k, "e": M(V("Noref"), "remove_converter",
                                         ref(f))})
            if f in reg:
                reg.remove(f)
                expected[k] = dict(kind="ok")
            else:
                expected[k] = dict(kind="raise")
        steps += probe()
    hs = "; ".join("%s %s" % a for a in h)

    def judge(obs, rec, case):
        if obs is None:
            chk.inconclusive_because("generic history died: %s" % hs)
            return
        chk.case((label, hs), nontrivial=len(h) >= 2)
        chk.count("histories|" + label)
        bad = []
        for k, exp in expected.items():
            if exp["kind"] == "probe":
                r = obs.get(k + ".reg")
                want = list(reversed(exp["reg"]))
                got = [x.get("name") for x in r["items"]] \
                    if r and r.get("k") == "T" else None
                if got != want:
                    bad.append("%s: converters listed %s, expected %s" %
                               (k, got, want))
                for a, b in (("t0", "t1"), ("t0", "t2"), ("t1", "t2"),
                             ("t1", "t0")):
                    c = obs.get("%s.%s%s" % (k, a, b))
                    winner = None
                    for f in reversed(exp["reg"]):
                        if factor(f, a, b) is not None:
                            winner = f
                            break
                    if winner is None:
                        if not is_exc(c, "UnitConversionError"):
                            bad.append("%s: no converter answers %s->%s but "
                                       "got %s" % (k, a, b, brief(c)))
                    else:
                        first = list(reversed(exp["reg"]))[0]
                        if winner != first:
                            chk.count("answered by an older converter "
                                      "(newer returned None)")
                        want_amt = 10 * factor(winner, a, b)
                        if c is None or c.get("k") != "Q" or \
                                val(c) != want_amt or c["u"] != b:
                            bad.append("%s: %s->%s must be answered by %s "
                                       "(%s), got %s" % (k, a, b, winner,
                                                         want_amt, brief(c)))
                z = obs.get(k + ".zero")
                if any(factor(f, "t0", "t1") is not None
                       for f in exp["reg"]):
                    chk.count("zero results of generic converters")
                    if z is None or z.get("k") != "Q" or val(z) != 0 or \
                            z["u"] != "t1":
                        bad.append("%s: 0 t0 -> t1 gives %s although a "
                                   "registered converter answers 0" %
                                   (k, brief(z)))
                elif not is_exc(z, "UnitConversionError"):
                    bad.append("%s: no converter answers t0->t1 but 0 t0 "
                               "converts to %s" % (k, brief(z)))
            elif exp["kind"] == "ok":
                if exp.get("again"):
                    chk.count("same converter registered twice")
                if obs.get(k, {}).get("k") == "E":
                    bad.append("%s raised %s" % (k, brief(obs[k])))
            else:
                chk.count("rejected removals (generic)")
                if obs.get(k, {}).get("k") != "E":
                    bad.append("%s: removing an unregistered converter did "
                               "not raise" % k)
        if bad:
            chk.violation("generic history [%s]: %s" %
                          (hs, "; ".join(bad[:3])),
                          dict(history=hs, problems=bad[:12], steps=steps,
                               obs=obs), "generic-registry")
    return Case(steps, judge, isolate=True)


def run(chk, R, tier, seed):
    rng = random.Random("C12-%d" % seed)
    for c in ("exceptional leaves", "rejected removals", "failing exits",
              "conversions with empty stack",
              "conversions with several converters active",
              "most recent converter has no rate for the pair",
              "same converter registered twice",
              "rejected removals (generic)",
              "answered by an older converter (newer returned None)",
              "histories|money-exhaustive", "histories|money-random",
              "histories|generic-exhaustive", "histories|generic-random",
              "histories|generic-exhaustive-bound-method",
              "histories|money-exhaustive-twins",
              "histories|generic-exhaustive-table-converters"):
        chk.require(c)
    L = 5 if tier == "quick" else 6
    hs = enum_histories(L)
    chk.exhaustive["money histories up to size %d (2 converters)" % L] = True
    chk.extra["exhaustive_money_histories"] = len(hs)
    cases = [money_case(chk, h, ("A", "B"), "money-exhaustive") for h in hs]
    # the same histories with two value-equal converters
    for h in enum_histories(L - 1):
        cases.append(money_case(chk, rename(h, {"B": "T"}), ("A", "T"),
                                "money-exhaustive-twins"))
    nrand = 300 if tier == "quick" else 6000
    for i in range(nrand):
        names = ("A", "B", "C", "T") if i % 3 == 0 else ("A", "B", "C")
        h = rand_history(rng, rng.randint(5, 40), names)
        cases.append(money_case(chk, h, names, "money-random"))
    run_cases(chk, R, cases)
    # generic
    acts = [(a, f) for a in ("reg", "rem") for f in FN]
    GL = 3 if tier == "quick" else 5
    cases = []
    import itertools
    for n in range(1, GL + 1):
        for h in itertools.product(acts, repeat=n):
            cases.append(generic_case(chk, h, "generic-exhaustive"))
            if n <= 3:
                cases.append(generic_case(chk, h, "generic-exhaustive",
                                          bound=True))
                cases.append(generic_case(chk, h, "generic-exhaustive",
                                          tables=True))
    chk.exhaustive["generic histories up to length %d (3 callables)" % GL] \
        = True
    for _ in range(150 if tier == "quick" else 3000):
        h = tuple(rng.choice(acts) for _ in range(rng.randint(4, 25)))
        fl = rng.random()
        cases.append(generic_case(chk, h, "generic-random",
                                  bound=fl < 0.3, tables=fl > 0.7))
    run_cases(chk, R, cases, preload=("quantity",))
