"""C02 -- products, quotients and powers respect dimensions and scales."""
from __future__ import annotations

import random
from fractions import Fraction as F

from ..cases import Case, run_cases, Q, U, V, M, OP
from ..ctl import num, val, is_exc
from ..gen import random_plan, plan_steps, rand_fraction
from ..models import si_table as SI
from ..models.world import predefined_world
from ..ops import operand, describe_operand
from ..oracle import judge_prediction, brief

RULE = ("all 113x113 ordered pairs of predefined units x {*, /} with operand "
        "kinds {quantity, unit, number} rotated (thorough: all kinds), powers "
        "-3..3 of every unit, plus seeded synthetic worlds (base/derived "
        "types with and without reference unit and quantum, alias / "
        "term-defined / derived units) x random operations, and two-step "
        "cascades (a op b) op c, c op (a op b), (a op b) ** n whose inner "
        "result is exact; non-trivial = "
        "both operands carry a unit or the exponent is not 0/1; distinct by "
        "(world, operation, operands)")
ANCHORS = ("Unit.__mul__", "Unit.__truediv__", "Unit.__pow__",
           "Quantity.__mul__", "Quantity.__truediv__", "Quantity.__pow__",
           "Quantity.__rtruediv__", "_amnt_and_unit_from_term",
           "Term.normalized", "Term._reduce_items")

KINDS2 = ["qq", "qu", "uq", "uu", "qn", "nq", "un", "nu"]


def _inplace(rng, op):
    """one time in ten the augmented-assignment form of the operator (the
    same operation unless a type grows an in-place method)"""
    return op + "=" if rng.random() < 0.1 else op


def op_case(chk, w, rng, op, s1, s2, kinds, wid, x1=None, x2=None,
            extra_steps=None):
    k1, k2 = kinds
    e1, m1 = operand(rng, w, s1, k1, x1)
    e2, m2 = operand(rng, w, s2, k2, x2)
    if op == "**":
        n = x2
        steps = [{"k": "r", "e": OP(_inplace(rng, "**"), e1, ["i", n])}]
        pred = w.predict_pow(m1, n)
        desc = "(%s) ** %d" % (describe_operand(m1), n)
    else:
        steps = [{"k": "r", "e": OP(_inplace(rng, op), e1, e2)}]
        pred = w.predict_mul(op, m1, m2)
        desc = "(%s) %s (%s)" % (describe_operand(m1), op,
                                 describe_operand(m2))
    unit_level = (k1 == "u" and k2 == "u" and op != "**")

    def judge(obs, rec, case):
        judge_op(chk, w, pred, obs.get("r") if obs else None, desc, steps,
                 unit_level, wid, kinds, op)
    return Case(steps, judge)


def judge_op(chk, w, pred, r, desc, steps, unit_level, wid, kinds, op,
             plan=None):
    if r is None:
        chk.inconclusive_because("operation not observed: " + desc)
        return
    if r.get("k") == "skip":
        return
    nontrivial = "n" not in kinds if op != "**" else True
    chk.case((wid, desc), nontrivial=nontrivial)
    bad, cls = judge_prediction(w, pred, r, unit_level=unit_level,
                                ufactor=pred.get("ufactor"))
    chk.count("outcome|" + cls)
    chk.count("kinds|" + ("".join(kinds) if op != "**"
                          else kinds[0] + "**"))
    if cls in ("qty", "qty-noref") and not bad and r.get("k") == "Q":
        if w.quantum_of(r["u"]) is not None:
            chk.count("quantized-result-type")
    if bad:
        mech = "%s/%s" % (cls, r.get("cls") if r.get("k") == "E" else r.get("k"))
        wit = dict(op=desc, expected=_pj(pred), observed=r, steps=steps,
                   world=wid)
        if plan is not None:
            wit["declarations"] = plan
        chk.violation("%s: %s" % (desc, "; ".join(bad)), wit, mech)
    elif len(chk.samples) < chk.max_samples:
        chk.sample(dict(op=desc, expected=_pj(pred), observed=brief(r)))


def _pj(pred):
    return {k: (str(v) if isinstance(v, F) else v) for k, v in pred.items()}


def predefined_cases(chk, rng, tier):
    w = predefined_world()
    syms = list(SI.UNITS)
    cases = []
    i = 0
    for s1 in syms:
        for s2 in syms:
            t1, t2 = SI.type_of(s1), SI.type_of(s2)
            if t1 == t2 == "Temperature" and s1 != s2:
                continue    # converter-mediated: C14
            for op in ("*", "/"):
                if tier == "quick":
                    kl = [KINDS2[i % 4]]        # two-unit kinds
                    i += 1
                else:
                    kl = KINDS2[:4]
                for kinds in kl:
                    cases.append(op_case(chk, w, rng, op, s1, s2, kinds,
                                         "predefined", F(5, 2), F(7, 3)))
    chk.exhaustive["predefined unit pairs x {*,/}"] = True
    # number operands and powers: every unit
    for s in syms:
        for kinds in ("qn", "nq", "un", "nu"):
            for op in ("*", "/"):
                cases.append(op_case(chk, w, rng, op, s, s, kinds,
                                     "predefined",
                                     rand_fraction(rng, False, small=True),
                                     rand_fraction(rng, False, small=True)))
        for n in (-3, -2, -1, 0, 1, 2, 3):
            for k in ("q", "u"):
                cases.append(op_case(chk, w, rng, "**", s, s, (k, "n"),
                                     "predefined", F(3, 2), n))
    chk.exhaustive["predefined units x powers -3..3"] = True
    # cascades: a result as an operand of the next operation
    for i in range(1500 if tier == "quick" else 20000):
        o = rand_cascade(rng, w, "r")
        if o is None:
            continue
        st, pred, desc, ul, kinds, op = o

        def judge(obs, rec, case, st=st, pred=pred, desc=desc, kinds=kinds,
                  op=op):
            chk.count("cascades (a result as an operand)")
            chk.count("cascade outcome|" + pred["kind"])
            judge_op(chk, w, pred, obs.get("r") if obs else None, desc, [st],
                     False, "predefined", kinds, op)
        cases.append(Case([st], judge))
    return cases


def deep(rng, p=0.08):
    """now and then an amount with 20..45 decimals (exactness has no
    precision cap), else None = the operand generator's own choice"""
    if rng.random() >= p:
        return None
    k = rng.randint(20, 45)
    return rng.choice([-1, 1]) * (rng.randint(0, 999) +
                                  F(rng.randint(1, 10 ** k - 1) | 1, 10 ** k))


def rand_op(rng, w, key):
    """-> (step, prediction, description, unit_level, kinds, op)"""
    syms = list(w.units)
    r = rng.random()
    if r < 0.12:
        s1 = rng.choice(syms)
        n = rng.choice([-3, -2, -1, 0, 1, 2, 3])
        k = rng.choice("qu")
        e1, m1 = operand(rng, w, s1, k)
        return ({"k": key, "e": OP(_inplace(rng, "**"), e1, ["i", n]),
                 "_m": (m1, n)},
                w.predict_pow(m1, n),
                "(%s) ** %d" % (describe_operand(m1), n), False,
                (k, "n"), "**")
    s1, s2 = rng.choice(syms), rng.choice(syms)
    kinds = rng.choice(KINDS2[:4] * 3 + KINDS2[4:])
    op = rng.choice("*/")
    e1, m1 = operand(rng, w, s1, kinds[0], deep(rng))
    e2, m2 = operand(rng, w, s2, kinds[1], deep(rng))
    return ({"k": key, "e": OP(_inplace(rng, op), e1, e2), "_m": (m1, m2)},
            w.predict_mul(op, m1, m2),
            "(%s) %s (%s)" % (describe_operand(m1), op,
                              describe_operand(m2)),
            kinds == "uu", kinds, op)


def _exact_type(w, tname):
    """no unit of the type rounds what it is given"""
    return all(w.quantum_of(u.sym) is None for u in w.units_of(tname))


def rand_cascade(rng, w, key, tries=30):
    """A two-operation expression whose first result is an operand of the
    second: (a op1 b) op2 c, c op2 (a op1 b), (a op1 b) ** n.  The inner
    result must be a plain number or a quantity of a type that has a reference
    unit and no quantum -- then its value is exact whatever unit the library
    picks for it, and the outer prediction follows from value and signature
    alone.  -> the same tuple as rand_op, or None"""
    from ..models.world import vmul, vpow
    syms = list(w.units)
    for _ in range(tries):
        s1, s2 = rng.choice(syms), rng.choice(syms)
        k1, k2 = rng.choice(["qq", "qq", "qu", "uq"])
        op1 = rng.choice("*/")
        e1, m1 = operand(rng, w, s1, k1)
        e2, m2 = operand(rng, w, s2, k2)
        p1 = w.predict_mul(op1, m1, m2)
        if p1["kind"] == "number":
            inner_m = ("n", p1["value"])
        elif p1["kind"] == "qty" and _exact_type(w, p1["type"]) and \
                all(w.quantum_of(m[2]) is None for m in (m1, m2)
                    if m[0] == "q"):
            inner_m = None
        else:
            continue
        inner = OP(op1, e1, e2)
        d1 = "((%s) %s (%s))" % (describe_operand(m1), op1,
                                 describe_operand(m2))
        if inner_m is None and rng.random() < 0.2:
            n = rng.choice([-2, -1, 2, 3])
            if p1["value"] == 0 and n < 0:
                continue
            pred = w.predict_value(p1["value"] ** n, vpow(p1["vec"], n))
            return ({"k": key, "e": OP("**", inner, ["i", n])}, pred,
                    "%s ** %d" % (d1, n), False, ("q", "n"), "**")
        k3 = rng.choice("qqu")
        op2 = rng.choice("*/")
        inner_first = rng.random() < 0.6
        s3 = rng.choice(syms)
        if inner_m is None and rng.random() < 0.7:
            # prefer a third operand that leads somewhere
            for s in rng.sample(syms, min(len(syms), 40)):
                v3 = w.den(s)[1]
                sg = (1 if op2 == "*" else -1)
                vec2 = vmul(p1["vec"], v3, sg) if inner_first else \
                    vmul(v3, p1["vec"], sg)
                if w.predict_value(F(1), vec2)["kind"] in ("qty", "number",
                                                           "qty-noref"):
                    s3 = s
                    break
        e3, m3 = operand(rng, w, s3, k3)
        if inner_m is not None:
            # plain number op quantity/unit: the documented scaling
            a, b = (inner_m, m3) if inner_first else (m3, inner_m)
            if a[0] == "n" and op2 == "/":
                f3, v3 = w.operand_den(m3)
                if f3 == 0:
                    continue
                pred = w.predict_value(inner_m[1] / f3, vpow(v3, -1))
            else:
                pred = w.predict_mul(op2, a, b)
        else:
            f3, v3 = w.operand_den(m3)
            if inner_first:
                if op2 == "/" and f3 == 0:
                    continue
                val2 = p1["value"] * f3 if op2 == "*" else p1["value"] / f3
                vec2 = vmul(p1["vec"], v3, 1 if op2 == "*" else -1)
            else:
                if op2 == "/" and p1["value"] == 0:
                    continue
                val2 = f3 * p1["value"] if op2 == "*" else f3 / p1["value"]
                vec2 = vmul(v3, p1["vec"], 1 if op2 == "*" else -1)
            pred = w.predict_value(val2, vec2)
        if pred["kind"] == "zerodiv":
            continue
        d3 = describe_operand(m3)
        if inner_first:
            expr, desc = OP(op2, inner, e3), "%s %s (%s)" % (d1, op2, d3)
        else:
            expr, desc = OP(op2, e3, inner), "(%s) %s %s" % (d3, op2, d1)
        kinds = "qq" if inner_m is None else \
            ("n" + k3 if inner_first else k3 + "n")
        return ({"k": key, "e": expr}, pred, desc, False, kinds, op2)
    return None


def world_case(chk, rng, wi, n_ops=40):
    from .c17 import topo_shuffle
    from ..gen import Decl
    from ..models.world import World
    plan, w = random_plan(rng)
    # the same declarations in an order that delays derived types, so that
    # operations can be evaluated while their result type does not exist yet
    order = topo_shuffle(rng, plan, delay_derived=True)
    split = rng.randint(max(1, len(order) // 3), len(order))
    wpart = World()
    steps = []
    ops = []
    for i, d in enumerate(order):
        if i == split and wpart.units:
            for j in range(12):
                o = rand_op(rng, wpart, "e%d" % j)
                ops.append(o + (wpart.copy(), "early"))
                steps.append(o[0])
        d2 = Decl(d.kind, **{k: v for k, v in d.p.items() if k != "ref_eff"})
        d2.apply(wpart)
        steps.extend(d2.steps("d%d" % i))
    # the early operations once more, and fresh ones, in the full world
    for o in list(ops):
        st = dict(o[0])
        st["k"] = "l" + st["k"][1:]
        again = rand_again(o, wpart, st)
        if again is not None:
            ops.append(again)
            steps.append(st)
    for j in range(n_ops):
        o = rand_op(rng, wpart, "o%d" % j)
        ops.append(o + (wpart, "final"))
        steps.append(o[0])
    for j in range(8):
        o = rand_cascade(rng, wpart, "c%d" % j)
        if o is not None:
            ops.append(o + (wpart, "cascade"))
            steps.append(o[0])
    # every type declared as a pure power T ** e: that very power (and the
    # power of opposite sign, mostly undefined) of a quantity and of a unit
    j = 0
    for t in list(wpart.types.values()):
        if len(t.defn) != 1 or t.defn[0][1] == 1:
            continue
        base, e = t.defn[0]
        us = [u.sym for u in wpart.units_of(base)]
        if not us:
            continue
        for n in (e, -e):
            for k in "qu":
                e1, m1 = operand(rng, wpart, rng.choice(us), k)
                st = {"k": "p%d" % j, "e": OP(_inplace(rng, "**"), e1,
                                              ["i", n]), "_m": (m1, n)}
                j += 1
                ops.append((st, wpart.predict_pow(m1, n),
                            "(%s) ** %d" % (describe_operand(m1), n), False,
                            (k, "n"), "**", wpart, "final"))
                steps.append(st)
    w = wpart
    wid = "world%d" % wi
    planj = [d.to_json() for d in order]
    n_pow = j

    def judge(obs, rec, case):
        if obs is None:
            chk.inconclusive_because("world died: %s" % rec.get("died"))
            return
        failed = [k for k in obs if k[0] == "d" and k[1:].isdigit() and
                  obs[k].get("k") == "E"]
        if failed:
            chk.count("world-skipped|valid-declaration-rejected (C15's)")
            return
        chk.count("worlds")
        if n_pow:
            chk.count("defining powers of pure-power types", n_pow)
        if any(not t.has_ref for t in w.types.values()):
            chk.count("worlds-with-type-without-ref-unit")
        early_undefined = set()
        for st, pred, desc, ul, kinds, op, wm, phase in ops:
            if phase == "early" and pred["kind"] == "undefined":
                early_undefined.add(st["k"][1:])
            if phase == "late" and st["k"][1:] in early_undefined and \
                    pred["kind"] in ("qty", "number"):
                chk.count("undefined before its type was declared, defined "
                          "after")
            if op != "**" and "_m" in st and any(
                    m[0] != "u" and F(m[1]).denominator > 10 ** 19
                    for m in st["_m"]):
                chk.count("operations on amounts with 20..45 decimals")
            if phase == "cascade":
                chk.count("cascades (a result as an operand)")
                chk.count("cascade outcome|" + pred["kind"])
            judge_op(chk, wm, pred, obs.get(st["k"]), desc +
                     ("" if phase == "final" else " [%s]" % phase), [st], ul,
                     wid, kinds, op, plan=planj)
    return Case(steps, judge, isolate=True)


def rand_again(o, wfull, st):
    """re-predict an early operation in the full world (same expression)"""
    step, pred, desc, ul, kinds, op, wm, phase = o
    m1, m2 = step["_m"]
    if op == "**":
        p2 = wfull.predict_pow(m1, m2)
    else:
        p2 = wfull.predict_mul(op, m1, m2)
    return (st, p2, desc, ul, kinds, op, wfull, "late")


def money_world_case(chk, rng, wi, n_ops=40):
    """predefined catalogue + currencies + money-per-X types: products and
    quotients that create or consume money (a type without reference unit
    whose units carry their own quantum)"""
    from ..gen import Decl
    from ..cases import world_program
    curs = {"EUR": 2, "USD": 2, "JPY": 0, "BHD": 3}
    xtypes = {"Mass": ["kg", "g", "lb"], "Length": ["m", "km"],
              "Duration": ["h", "s"]}
    w = predefined_world(curs)
    plan = []
    pool = list(curs)
    for xt, xus in xtypes.items():
        name = "Per%s%d" % (xt, wi % 5)
        d = Decl("derived", name=name, items=[("Money", 1), (xt, -1)],
                 form=rng.choice(["ops", "term"]))
        d.apply(w)
        plan.append(d)
        pool += xus
        for cur in curs:
            for xu in xus:
                if rng.random() < 0.5:
                    sym = "%s/%s" % (cur, xu)
                    du = Decl("derive", t=name, sym=sym, units=[cur, xu])
                    du.apply(w)
                    plan.append(du)
                    pool.append(sym)
    pre = [{"id": "Money", "e": ["g", "quantity.money:Money"]}] + \
          [{"id": xt, "e": ["g", "quantity.predefined:" + xt]}
           for xt in xtypes] + \
          [{"e": M(["g", "quantity.money:Money"], "register_currency",
                   ["s", c])} for c in curs]
    wid = "moneyworld%d" % wi
    planj = [d.to_json() for d in plan]
    subs = []
    prices = [s_ for s_ in pool if "/" in s_]
    for j in range(n_ops):
        s1, s2 = rng.choice(pool), rng.choice(pool)
        op = rng.choice("*/")
        shape = rng.random()
        if prices and shape < 0.25:         # price * quantity -> money
            s1 = rng.choice(prices)
            xt = [t for t in xtypes if s1.split("/")[1] in xtypes[t]][0]
            s2 = rng.choice(SI.units_of(xt))
            op = "*"
            if rng.random() < 0.5:
                s1, s2 = s2, s1
        elif shape < 0.4:                   # money / quantity -> price
            s1 = rng.choice(list(curs))
            s2 = rng.choice([u for us in xtypes.values() for u in us])
            op = "/"
        elif prices and shape < 0.55:       # money / price -> quantity
            s1 = rng.choice(list(curs))
            s2 = rng.choice(prices)
            op = "/"
        elif prices and shape < 0.65:       # price / price
            s1, s2 = rng.choice(prices), rng.choice(prices)
            op = "/"
        kinds = rng.choice(KINDS2[:4] * 3 + KINDS2[4:])
        e1, m1 = operand(rng, w, s1, kinds[0])
        e2, m2 = operand(rng, w, s2, kinds[1])
        st = {"k": "r", "e": OP(op, e1, e2)}
        pred = w.predict_mul(op, m1, m2)
        desc = "(%s) %s (%s)" % (describe_operand(m1), op,
                                 describe_operand(m2))

        def judge(obs, st=st, pred=pred, desc=desc, kinds=kinds, op=op):
            if pred["kind"] in ("qty", "qty-noref") and \
                    pred.get("type") == "Money":
                chk.count("results in money (own quantum per currency)")
            judge_op(chk, w, pred, (obs or {}).get("r"), desc, [st],
                     kinds == "uu", wid, kinds, op, plan=planj)
        subs.append(([st], judge))
    return world_program(chk, plan, subs, wid, extra_pre=pre)


def run(chk, R, tier, seed):
    rng = random.Random("C02-%d" % seed)
    for c in ("outcome|number", "outcome|undefined", "outcome|qty",
              "outcome|scaled", "quantized-result-type", "kinds|uq",
              "kinds|qu", "kinds|uu", "kinds|qq", "kinds|nq", "kinds|nu",
              "outcome|qty-noref", "outcome|incomm", "worlds",
              "undefined before its type was declared, defined after",
              "defining powers of pure-power types",
              "operations on amounts with 20..45 decimals",
              "cascades (a result as an operand)", "cascade outcome|qty",
              "cascade outcome|number", "cascade outcome|undefined"):
        chk.require(c)
    cases = predefined_cases(chk, rng, tier)
    run_cases(chk, R, cases, per_program=250)
    chk.require("results in money (own quantum per currency)")
    nm = 16 if tier == "quick" else 400
    run_cases(chk, R, [money_world_case(chk, rng, i) for i in range(nm)])
    nw = 120 if tier == "quick" else 1500
    done = 0
    while done < nw:
        n = min(nw - done, 480)
        cases = [world_case(chk, rng, done + i) for i in range(n)]
        run_cases(chk, R, cases, preload=("quantity",))
        done += n
