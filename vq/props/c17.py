"""C17 -- results do not depend on evaluation history."""
from __future__ import annotations

import random
from fractions import Fraction as F

from ..cases import Case, run_cases, Q, U, V, M, OP
from ..ctl import num, val, is_exc
from ..gen import Decl, random_plan, rand_fraction, enc_amount
from ..models.world import World, Rejected, OutOfDomain
from ..ops import stored, describe_operand
from ..oracle import brief, judge_prediction

RULE = ("synthetic worlds x 10..40 products / quotients / powers of units "
        "and quantities, each world executed under five schedules in fresh "
        "processes: S1 declarations first; S2 every operation attempted as "
        "early as its operands exist (often before its result type exists) "
        "and again at the end; S3 reversed operation order, commuting "
        "operands swapped, each evaluated three times; S4 a permuted "
        "dependency-respecting declaration order; S5 a more direct result "
        "unit declared between two evaluations.  Every evaluation is judged "
        "against the history-free dimension model for the declarations made "
        "so far, and the final evaluations are compared pairwise between "
        "the five processes.  Non-trivial = both operands carry units; "
        "distinct by (world, operation)")
ANCHORS = ("Unit.__mul__", "Unit.__truediv__", "_amnt_and_unit_from_term",
           "DefinedItemRegistry.register_item",
           "DefinedItemRegistry.__getitem__", "Term.normalized")


class OpSpec:
    def __init__(self, rng, w, idx, sibling_of=None):
        syms = list(w.units)
        self.idx = idx
        r = rng.random()
        if sibling_of is not None and sibling_of.op == "**":
            # the same power at the other level (unit <-> quantity)
            self.op = "**"
            self.s1 = sibling_of.s1
            self.n = sibling_of.n
            self.k1 = "q" if sibling_of.k1 == "u" else "u"
            self.s2 = self.k2 = None
            r = None
        elif sibling_of is not None and sibling_of.s1 is None:
            # number / x once more with another unit of x's type
            self.op, self.s1, self.k1 = "/", None, "n"
            t2 = w.units[sibling_of.s2].tname
            self.s2 = rng.choice([u.sym for u in w.units_of(t2)])
            self.k2 = sibling_of.k2
            r = None
        elif sibling_of is not None:
            # same operator and same two TYPES, other units: a result cached
            # per type pair instead of per unit pair would be wrong here
            self.op = sibling_of.op
            self.k1, self.k2 = sibling_of.k1, sibling_of.k2
            t1 = w.units[sibling_of.s1].tname
            t2 = w.units[sibling_of.s2].tname
            self.s1 = rng.choice([u.sym for u in w.units_of(t1)])
            self.s2 = rng.choice([u.sym for u in w.units_of(t2)])
            r = None
        if r is None:
            pass
        elif r < 0.15:
            self.op = "**"
            self.s1 = rng.choice(syms)
            self.k1 = rng.choice("qu")
            self.n = rng.choice([-2, -1, 2, 3])
            self.s2 = self.k2 = None
        elif r < 0.27:
            # number / unit and number / quantity: the reciprocal path, which
            # has no cache of its own
            self.op = "/"
            self.s1 = None
            self.s2 = rng.choice(syms)
            self.k1, self.k2 = "n", rng.choice("qu")
        else:
            self.op = rng.choice("*/")
            self.s1, self.s2 = rng.choice(syms), rng.choice(syms)
            self.k1, self.k2 = rng.choice(["qq", "qq", "qu", "uq", "uu"])
        self.x1 = rand_fraction(rng, allow_zero=False, small=True)
        self.x2 = rand_fraction(rng, allow_zero=False, small=True)
        self.e1 = enc_amount(rng, self.x1, ("D", "F"))[0]
        self.e2 = enc_amount(rng, self.x2, ("D", "F"))[0]

    def needs(self):
        return ({self.s1} if self.s1 else set()) | \
            ({self.s2} if self.s2 else set())

    def operand(self, w, which, swap=False):
        s, k, x, e = ((self.s1, self.k1, self.x1, self.e1) if which == 1
                      else (self.s2, self.k2, self.x2, self.e2))
        if k == "u":
            return U(s), ("u", s)
        if k == "n":
            return e, ("n", x)
        return Q(e, s), ("q", stored(w, x, s), s)

    def build(self, w, swap=False):
        """-> (expr, prediction, description, unit_level)"""
        e1, m1 = self.operand(w, 1)
        if self.op == "**":
            return (OP("**", e1, ["i", self.n]), w.predict_pow(m1, self.n),
                    "(%s) ** %d" % (describe_operand(m1), self.n), False)
        e2, m2 = self.operand(w, 2)
        if swap and self.op == "*":
            e1, e2, m1, m2 = e2, e1, m2, m1
        return (OP(self.op, e1, e2), w.predict_mul(self.op, m1, m2),
                "(%s) %s (%s)" % (describe_operand(m1), self.op,
                                  describe_operand(m2)),
                self.k1 == "u" and self.k2 == "u")


def topo_shuffle(rng, plan, delay_derived=False):
    """a random dependency-respecting permutation of the plan"""
    left = list(plan)
    have = set()
    out = []
    while left:
        ready = [d for d in left if d.needs() <= have]
        if not ready:
            return list(plan)
        if delay_derived and rng.random() < 0.85:
            early = [d for d in ready if d.kind != "derived"]
            ready = early or ready
        d = rng.choice(ready)
        left.remove(d)
        out.append(d)
        have |= d.creates()
        if d.kind in ("base", "derived") and d.p.get("ref_eff"):
            have.add("U:" + d.p["ref_eff"])
        if d.kind == "base" and d.p.get("ref"):
            have.add("U:" + d.p["ref"])
    return out


def schedule_program(rng, plan, ops, sched):
    """-> (steps, evals) where evals = [(key, op idx, prediction, desc,
    unit_level, phase)] judged against the model state at that time"""
    w = World()
    steps = []
    evals = []
    order = plan
    if sched == "S4":
        order = topo_shuffle(rng, plan)
    if sched == "S2":
        order = topo_shuffle(rng, plan, delay_derived=True)
    counter = [0]

    def evaluate(o, phase, swap=False):
        counter[0] += 1
        key = "v%d" % counter[0]
        e, pred, desc, ul = o.build(w, swap)
        steps.append({"k": key, "e": e})
        evals.append((key, o.idx, pred, desc, ul, phase))

    early_done = set()
    for i, d in enumerate(order):
        d2 = Decl(d.kind, **{k: v for k, v in d.p.items() if k != "ref_eff"})
        d2.apply(w)
        steps.extend(d2.steps("d%d" % i))
        if sched == "S2":
            for o in ops:
                if o.needs() <= set(w.units) and (
                        o.idx not in early_done or d.kind == "derived" or
                        # a unit derived from exactly these operands was
                        # just declared (for whatever type)
                        (d.kind == "derive" and
                         o.needs() <= set(d.p["units"]))):
                    evaluate(o, "early")
                    early_done.add(o.idx)
    if sched == "S3":
        for o in reversed(ops):
            for rep in range(3):
                evaluate(o, "repeat%d" % rep, swap=(rep == 1))
    # final evaluations, the same for every schedule
    for o in ops:
        evaluate(o, "final")
    if sched == "S5":
        # declare a more direct result unit for some operations, re-evaluate
        added = 0
        for o in ops:
            if o.op == "**" or added >= 4 or o.s1 is None:
                continue
            u1, u2 = w.units[o.s1], w.units[o.s2]
            _, pred, _, _ = o.build(w)
            if pred["kind"] not in ("qty", "qty-noref"):
                continue
            t = w.types[pred["type"]]
            if t.base or len(t.defn) != 2:
                continue
            (n1, e1), (n2, e2) = t.defn
            cand = None
            if (u1.tname, u2.tname) == (n1, n2):
                cand = [o.s1, o.s2]
            elif (u2.tname, u1.tname) == (n1, n2):
                cand = [o.s2, o.s1]
            if cand is None:
                continue
            sym = "dir%d" % o.idx
            d = Decl("derive", t=t.name, sym=sym, units=cand)
            try:
                d.apply(w)
            except (Rejected, OutOfDomain, KeyError):
                continue
            steps.extend(d.steps("x%d" % o.idx))
            added += 1
            evaluate(o, "after-direct-unit")
        # ... and, for results in a type without reference unit, a SIBLING of
        # the result unit: the same shape over another base unit (EUR/kg is
        # there, now HKD/kg is declared); the operation must not move to it
        sib = 0
        for o in ops:
            if o.op == "**" or sib >= 4 or o.s1 is None:
                continue
            _, pred, _, _ = o.build(w)
            if pred["kind"] != "qty-noref":
                continue
            t = w.types[pred["type"]]
            if t.base or len(t.defn) != 2:
                continue
            u1, u2 = w.units[o.s1], w.units[o.s2]
            (n1, e1), (n2, e2) = t.defn
            if (u1.tname, u2.tname) == (n1, n2):
                pair = [o.s1, o.s2]
            elif (u2.tname, u1.tname) == (n1, n2):
                pair = [o.s2, o.s1]
            else:
                continue
            done_ = False
            for pos in (0, 1):
                bt = w.types[w.units[pair[pos]].tname]
                if bt.has_ref:
                    continue
                alts = [x.sym for x in w.units_of(bt.name)
                        if x.vec != w.units[pair[pos]].vec]
                if not alts:
                    continue
                cand = list(pair)
                cand[pos] = rng.choice(alts)
                d = Decl("derive", t=t.name, sym="sib%d" % o.idx, units=cand)
                try:
                    d.apply(w)
                except (Rejected, OutOfDomain, KeyError):
                    continue
                steps.extend(d.steps("y%d" % o.idx))
                done_ = True
                break
            if done_:
                sib += 1
                evaluate(o, "after-sibling-unit")
        for o in ops:
            evaluate(o, "final2")
    return steps, evals, w


def world_group(chk, rng, wi, pending):
    plan, w0 = random_plan(rng, power_type=(wi % 3 == 0),
                           force_quantum=(wi % 3 == 0))
    nops = rng.randint(10, 40)
    ops = []
    for j in range(nops):
        sib = ops[-1] if ops and rng.random() < 0.3 else None
        ops.append(OpSpec(rng, w0, j, sibling_of=sib))
    # powers whose result type exists, at both levels, next to each other
    for t in w0.types.values():
        if len(t.defn) == 1 and t.defn[0][1] in (2, 3, -1, -2):
            base_t, n = t.defn[0]
            for u in w0.units_of(base_t)[:4]:
                o = OpSpec(rng, w0, len(ops))
                o.op, o.s1, o.n = "**", u.sym, n
                o.k1 = rng.choice("uq")
                o.s2 = o.k2 = None
                ops.append(o)
                ops.append(OpSpec(rng, w0, len(ops), sibling_of=o))
    # products and quotients of the REFERENCE units of two base types, both
    # ways round and at both levels: the resulting term has exactly two base
    # elements and no numeric factor (the shortest path through the term
    # code), whichever of the two types was declared first
    bases = [t for t in w0.types.values() if not t.defn and t.has_ref]
    pairs = [(a, b) for a in bases for b in bases if a is not b]
    rng.shuffle(pairs)
    for a, b in pairs[:4]:
        for op in "*/":
            for kk in ("uu", "qq"):
                o = OpSpec(rng, w0, len(ops))
                o.op, o.s1, o.s2 = op, a.ref, b.ref
                o.k1, o.k2 = kk
                o.n = None
                ops.append(o)
    # ... and every product / quotient of two reference units whose result
    # is a declared type over exactly two base types although the operands'
    # definitions expand to more items (acceleration * duration -> velocity)
    reft = [t for t in w0.types.values() if t.has_ref]
    two = []
    for t in reft:
        v = {k: e for k, e in w0.units[t.ref].vec.items() if e}
        if len(v) == 2:
            two.append(v)
    cand = []
    for t1 in reft:
        for t2 in reft:
            v1, v2 = w0.units[t1.ref].vec, w0.units[t2.ref].vec
            if len([e for e in v1.values() if e]) + \
                    len([e for e in v2.values() if e]) < 3:
                continue
            for op, sg in (("*", 1), ("/", -1)):
                v = {k: v1.get(k, 0) + sg * v2.get(k, 0)
                     for k in set(v1) | set(v2)}
                v = {k: e for k, e in v.items() if e}
                if v in two:
                    cand.append((op, t1.ref, t2.ref))
    rng.shuffle(cand)
    for op, s1, s2 in cand[:6]:
        for kk in ("uu", "qq"):
            o = OpSpec(rng, w0, len(ops))
            o.op, o.s1, o.s2 = op, s1, s2
            o.k1, o.k2 = kk
            o.n = None
            ops.append(o)
    # product and quotient of the very units a two-unit derived unit was
    # derived from (whatever the exponents of its type are): declaring that
    # unit must not change them
    for d in plan:
        if d.kind != "derive" or len(d.p["units"]) != 2:
            continue
        for op in "*/":
            o = OpSpec(rng, w0, len(ops))
            o.op, (o.s1, o.s2) = op, d.p["units"]
            o.k1, o.k2 = rng.choice(["uu", "qq"])
            o.n = None
            ops.append(o)
    # the defining product / quotient of every two-factor type WITHOUT
    # reference unit, so that schedule S5 can declare sibling units for it
    for t in w0.types.values():
        if t.has_ref or len(t.defn) != 2:
            continue
        (n1, e1), (n2, e2) = t.defn
        if e1 != 1 or abs(e2) != 1 or not w0.units_of(n1) or \
                not w0.units_of(n2):
            continue
        for kk in ("qq", "uu"):
            o = OpSpec(rng, w0, len(ops))
            o.op = "*" if e2 == 1 else "/"
            o.s1 = rng.choice([u.sym for u in w0.units_of(n1)])
            o.s2 = rng.choice([u.sym for u in w0.units_of(n2)])
            o.k1, o.k2 = kk
            o.n = None
            ops.append(o)
    nops = len(ops)
    group = dict(wi=wi, results={}, plan=[d.to_json() for d in plan],
                 nops=nops)
    cases = []
    for sched in ("S1", "S2", "S3", "S4", "S5"):
        steps, evals, w = schedule_program(rng, plan, ops, sched)

        def judge(obs, rec, case, sched=sched, evals=evals, w=w, steps=steps):
            if obs is None:
                chk.inconclusive_because("world %d schedule %s died: %s" %
                                         (wi, sched, rec.get("died")))
                return
            failed = [k for k in obs if k[0] == "d" and k[1:].isdigit() and
                      obs[k].get("k") == "E"]
            if failed:
                chk.count("schedule skipped|valid declaration rejected "
                          "(C15's business)")
                group["results"][sched] = None
                return
            chk.count("schedules|" + sched)
            final = {}
            early = {}
            per_op = {}
            for key, idx, pred, desc, ul, phase in evals:
                r = obs.get(key)
                chk.case((wi, desc), nontrivial=True)
                sig = signature(w, r)
                # supplementary only: agreement with the history-free model
                # (a disagreement that is the same under every schedule is
                # C02's business, not a history dependence)
                problems, cls = judge_prediction(
                    w, pred, r, unit_level=ul, ufactor=pred.get("ufactor"))
                chk.count("model agrees" if not problems else
                          "model disagrees (same under all schedules: C02's)")
                wit = dict(world=wi, schedule=sched, phase=phase, op=desc,
                           observed=r, declarations=group["plan"],
                           steps=steps)
                if phase == "early":
                    early.setdefault(idx, []).append((sig, pred))
                elif phase.startswith("repeat"):
                    chk.count("operations re-evaluated in the same process")
                    per_op.setdefault(idx, []).append((sig, desc))
                elif phase == "after-direct-unit":
                    chk.count("S5 re-evaluations after a more direct unit")
                    if final.get(idx) and final[idx][0] != "E" and \
                            final[idx] != sig:
                        chk.violation(
                            "world %d schedule S5: %s gives %s, but %s after "
                            "a more direct unit was declared" %
                            (wi, desc, final[idx], sig), wit,
                            "history|direct-unit")
                elif phase == "after-sibling-unit":
                    chk.count("S5 re-evaluations after a sibling unit in a "
                              "type without reference unit")
                    if final.get(idx) and final[idx][0] != "E" and \
                            final[idx] != sig:
                        chk.violation(
                            "world %d schedule S5: %s gives %s, but %s after "
                            "a sibling unit (same shape, another base unit) "
                            "was declared" % (wi, desc, final[idx], sig),
                            wit, "history|sibling-unit")
                elif phase == "final":
                    final[idx] = sig
                    defined_now = pred["kind"] in ("qty", "number", "scaled")
                    was_undefined = False
                    for esig, epred in early.get(idx, []):
                        if epred["kind"] == "undefined" and defined_now:
                            was_undefined = True
                            if esig == ("E", "UndefinedResultError") and \
                                    sig == ("E", "UndefinedResultError"):
                                chk.violation(
                                    "world %d schedule %s: %s raised "
                                    "UndefinedResultError before its result "
                                    "type existed and still does after the "
                                    "type was declared" % (wi, sched, desc),
                                    wit, "history|stays-undefined")
                                break
                        elif esig[0] != "E" and esig != sig:
                            chk.violation(
                                "world %d schedule %s: %s gave %s when "
                                "evaluated early and %s after further "
                                "declarations" % (wi, sched, desc, esig, sig),
                                wit, "history|early-vs-final")
                            break
                    if was_undefined:
                        chk.count("operations evaluated before and after "
                                  "their result type existed")
                elif phase == "final2":
                    if final.get(idx) and final[idx][0] != "E" and \
                            final[idx] != sig:
                        chk.violation(
                            "world %d schedule S5: %s gives %s, but %s after "
                            "more direct units were declared" %
                            (wi, desc, final[idx], sig), wit,
                            "history|direct-unit")
            for idx, sigs in per_op.items():
                if len({x for x, _ in sigs}) > 1:
                    chk.violation(
                        "world %d: repeating %s gives different results: %s"
                        % (wi, sigs[0][1], [x for x, _ in sigs]),
                        dict(world=wi, declarations=group["plan"],
                             steps=steps), "history|repeat")
            group["results"][sched] = final
            group.setdefault("steps", {})[sched] = steps
            if sched == "S4":
                chk.count("permuted declaration orders")
        cases.append(Case(steps, judge, isolate=True))
    pending.append(group)
    return cases


def signature(w, r):
    """(type, exact reference value) of an observed result, or its error"""
    if r is None:
        return None
    if r.get("k") == "Q":
        u = w.units.get(r["u"])
        if u is None:
            return ("Q", r["t"], "unit?" + r["u"])
        t = w.types.get(u.tname)
        if t is not None and not t.has_ref:
            # no common scale in such a type: the value is the amount times
            # the unit's scale IN its own base units (5 EUR/kg is not
            # 5 HKD/kg)
            return ("Q", r["t"], str(val(r) * u.factor),
                    str(sorted(u.vec.items())))
        return ("Q", r["t"], str(val(r) * u.factor))
    if r.get("k") == "N":
        return ("N", str(val(r)) if r.get("a") else r.get("hex"))
    if r.get("k") == "T":
        items = r["items"]
        if len(items) == 2 and items[1].get("k") == "U":
            u = w.units.get(items[1]["sym"])
            if u is not None and items[0].get("a"):
                t = w.types.get(u.tname)
                if t is not None and not t.has_ref:
                    return ("UU", u.tname, str(val(items[0]) * u.factor),
                            str(sorted(u.vec.items())))
                return ("UU", u.tname, str(val(items[0]) * u.factor))
        if len(items) == 2 and items[1].get("k") == "None" and \
                items[0].get("a"):
            return ("UU", None, str(val(items[0])))
        return ("T", str(items)[:80])
    if r.get("k") == "E":
        return ("E", r["cls"])
    return (r.get("k"),)


def converter_repeat_case(chk, rng, i):
    """Quotients of quantities of a type that converts through a table: the
    same quotient evaluated three times (the property's "repeating an
    operation returns an equal result" for operations that consult a
    converter).  One direction tabulated only, so the reverse look-up is on
    the path."""
    f = rng.choice([F(5, 9), F(9, 5), F(3), F(1, 7), F(12), F(7, 2)])
    o = rng.choice([F(0), F(32), F(-27315, 100), F(1, 3)])
    x = F(rng.randint(1, 9999), rng.choice([1, 10, 100]))
    y = F(rng.randint(1, 9999), rng.choice([1, 10, 100]))
    fe = num(f, "int") if f.denominator == 1 and rng.random() < 0.5 \
        else num(f)
    steps = [{"cls": {"name": "Grade%d" % (i % 7), "kw": {}}, "id": "G"},
             {"e": M(V("G"), "new_unit", ["s", "g0"])},
             {"e": M(V("G"), "new_unit", ["s", "g1"])},
             {"id": "tc", "e": ["c", ["g", "quantity:TableConverter"], [
                 ["dict", [[["t", [U("g0"), U("g1")]],
                            ["t", [fe, num(o)]]]]]]]},
             {"e": M(V("G"), "register_converter", V("tc"))},
             {"id": "a", "e": Q(num(x), "g0")},
             {"id": "b", "e": Q(num(y), "g1")}]
    for j in range(3):
        steps.append({"k": "q%d" % j, "e": OP("/", V("a"), V("b"))})
        steps.append({"k": "c%d" % j, "e": M(V("b"), "convert", U("g0"))})
    yb = (y - o) / f            # b in g0

    def judge(obs, rec, case):
        if obs is None or "q0" not in obs:
            chk.inconclusive_because("converter repeat case not observed")
            return
        chk.case(("converter repeat", i, str(f), str(o), str(x), str(y)))
        chk.count("repeated operations through a converter")
        bad = []
        qs = [obs.get("q%d" % j, {}) for j in range(3)]
        cs = [obs.get("c%d" % j, {}) for j in range(3)]
        if yb != 0:
            for j, q in enumerate(qs):
                if q.get("k") != "N" or val(q) != x / yb:
                    bad.append("evaluation %d of (%s g0) / (%s g1) gives %s, "
                               "expected %s" % (j + 1, x, y, brief(q),
                                                x / yb))
        for j, c in enumerate(cs):
            if c.get("k") != "Q" or val(c) != yb or c["u"] != "g0":
                bad.append("conversion %d of %s g1 to g0 gives %s, expected "
                           "%s" % (j + 1, y, brief(c), yb))
        if bad:
            chk.violation("; ".join(bad[:3]), dict(obs=obs, steps=steps),
                          "history|repeat")
    return Case(steps, judge, isolate=True)


def run(chk, R, tier, seed):
    rng = random.Random("C17-%d" % seed)
    for c in ("operations evaluated before and after their result type "
              "existed", "operations re-evaluated in the same process",
              "permuted declaration orders",
              "S5 re-evaluations after a more direct unit",
              "S5 re-evaluations after a sibling unit in a type without "
              "reference unit",
              "cross-process comparisons", "schedules|S1", "schedules|S2",
              "schedules|S3", "schedules|S4", "schedules|S5"):
        chk.require(c)
    nw = 160 if tier == "quick" else 4000
    done = 0
    while done < nw:
        m = min(nw - done, 400)
        pending = []
        cases = []
        for i in range(m):
            cases.extend(world_group(chk, rng, done + i, pending))
        run_cases(chk, R, cases, preload=("quantity",))
        for g in pending:
            res = {s: f for s, f in g["results"].items() if f is not None}
            if len(res) < 2:
                continue
            ref_s = sorted(res)[0]
            for s in sorted(res)[1:]:
                for idx, sig in res[ref_s].items():
                    chk.count("cross-process comparisons")
                    if res[s].get(idx) != sig:
                        chk.violation(
                            "world %d operation #%d: schedule %s gives %s, "
                            "schedule %s gives %s" %
                            (g["wi"], idx, ref_s, sig, s, res[s].get(idx)),
                            dict(world=g["wi"], declarations=g["plan"],
                                 op=idx, steps=g["steps"].get(s),
                                 steps_other=g["steps"].get(ref_s),
                                 schedules=[ref_s, s]),
                            "history|cross-process")
        done += m
    chk.require("repeated operations through a converter")
    run_cases(chk, R, [converter_repeat_case(chk, rng, i)
                       for i in range(30 if tier == "quick" else 400)],
              preload=("quantity",))
