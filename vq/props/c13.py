"""C13 -- quantize and round follow the requested rounding mode exactly."""
from __future__ import annotations

import random
from fractions import Fraction as F

from ..cases import Case, run_cases, Q, U, V, M, OP, MODE
from ..oracle import brief
from ..ctl import num, val, is_exc, dec_str, EXACT_TYPES
from ..models import rounding as RM
from ..models import si_table as SI

RULE = ("grid: 8 modes x {explicit, default} x {Decimal, Fraction amount} x "
        "sign x {multiple, tie, tie+-1e-6, 1/3, 9/10 of a step} x quanta "
        "n/d in any unit of the type x quotients -50..50; a case is "
        "non-trivial if the amount is not already a multiple of the quantum; "
        "distinct by (type, units, quantum, amount, mode, repr, explicit); one "
        "case in seven repeats the call under every other default mode in the "
        "same process")
ANCHORS = ("_floordiv_rounded", "_quantize_fraction", "Quantity.quantize",
           "Quantity.__round__")

TYPES = ["Length", "Mass", "Velocity", "Duration", "DataVolume", "Volume",
         "Energy"]
Q_NUM = [1, 2, 3, 5, 7, 25]
Q_DEN = [1, 2, 3, 4, 8, 10, 100]
OFFSETS = ["mult", "tie", "tie+", "tie-", "third", "nine", "mult+", "mult-"]


def gen_case(rng, chk, mode, explicit, as_fraction, tname=None):
    tname = tname or rng.choice(TYPES)
    units = SI.units_of(tname)
    u = rng.choice(units)
    qu = rng.choice(units)
    if tname == "DataVolume":
        # the quantum itself is stored quantized; keep it on the grid so the
        # case stays a statement about quantize, not about construction
        g_amount = F(rng.choice([1, 2, 3, 5, 7, 25]))
        qu = rng.choice(["B", "kB", "KiB", "b", "Kib", "MB"])
    else:
        g_amount = F(rng.choice(Q_NUM), rng.choice(Q_DEN))
    g = g_amount * SI.scale(qu) / SI.scale(u)      # quantum in q's unit
    k = rng.choice([-2, -1, 0, 1]) if rng.random() < 0.3 else \
        rng.randint(-50, 50)
    off = rng.choice(OFFSETS)
    # a hair beside a tie or a multiple: 10**-3 .. 10**-33 of the quantum
    # (a function of k, so that the same amount and quantum keep recurring
    # under different modes within one process: memoised helpers)
    eps = F(1, 10 ** [6, 3, 10, 6, 15, 25, 33][k % 7])
    frac = {"mult": F(0), "tie": F(1, 2), "tie+": F(1, 2) + eps,
            "tie-": F(1, 2) - eps, "third": F(1, 3),
            "nine": F(9, 10), "mult+": eps, "mult-": -eps}[off]
    x = (k + frac) * g
    if tname == "DataVolume":
        # amounts are stored on the unit's grid; choose x on the grid
        qm = SI.quantum_of(u)
        x = RM.round_int(x / qm, "ROUND_FLOOR") * qm
    if dec_str(x) is None:
        as_fraction = True
    amount = num(x, "F" if as_fraction else "D")
    gq = num(g_amount, "F" if dec_str(g_amount) is None else
             rng.choice(["D", "F"]))
    qe = Q(amount, u)
    if tname != "DataVolume" and rng.random() < 0.2:
        # the same quantity as the result of an operation (amounts then
        # come as fractions with large terms, or as long decimals)
        qe = rng.choice([
            OP("/", Q(num(3 * x), u), ["i", 3]),
            OP("+", Q(num(x - F(7, 3)), u), Q(num(F(7, 3)), u)),
            OP("*", Q(num(x / 7), u), ["i", 7]),
            ["un", "neg", Q(num(-x), u)]])
        computed_operand = True
    else:
        computed_operand = False
    steps = [{"id": "q", "k": "q", "e": qe},
             {"id": "g", "k": "g", "e": Q(gq, qu)}]
    call = {"k": "r", "e": M(V("q"), "quantize", V("g"),
                             *([MODE(mode)] if explicit else []))}
    if explicit:
        # a different default mode must not matter
        other = rng.choice(RM.MODES)
        steps.append({"setmode": other, "body": [call]})
    else:
        steps.append({"setmode": mode, "body": [call]})
    sweep = []
    if not explicit and rng.random() < 0.15:
        # the very same quantity and quantum under every other default mode,
        # one after the other in one process: nothing may remember a mode
        sweep = [m_ for m_ in RM.MODES if m_ != mode]
        rng.shuffle(sweep)
        for m_ in sweep:
            steps.append({"setmode": m_, "body": [
                {"k": "r:" + m_, "e": M(V("q"), "quantize", V("g"))}]})
    info = dict(type=tname, u=u, qu=qu, g=str(g_amount), x=str(x), mode=mode,
                explicit=explicit, frac=as_fraction, off=off)

    def judge(obs, rec, case):
        if obs is None or "q" not in obs:
            chk.inconclusive_because("C13 case not observed")
            return
        q, gg, r = obs["q"], obs["g"], obs.get("r")
        if q.get("k") != "Q" or gg.get("k") != "Q":
            chk.violation("constructing operands failed",
                          dict(info=info, obs=obs, steps=steps), "construct")
            return
        xs = val(q)
        gs = val(gg) * SI.scale(gg["u"]) / SI.scale(q["u"])
        want = RM.round_to(xs, gs, mode)
        tie = RM.is_tie(xs, gs)
        ismult = (xs / gs).denominator == 1
        chk.case((tname, u, qu, str(gs), str(xs), mode, as_fraction,
                  explicit), nontrivial=not ismult)
        sign = "neg" if xs < 0 else "pos"
        chk.count("%s|%s|%s|%s" % (mode, "F" if q["at"] == "Fraction" else "D",
                                   "tie" if tie else "notie", sign))
        chk.count("explicit" if explicit else "default")
        if computed_operand:
            chk.count("quantities that are results of operations")
        if tie and -1 <= xs / gs <= 1:
            chk.count("zero-corner-tie|%s|%s" % (
                mode, "F" if q["at"] == "Fraction" else "D"))
        if r is None or r.get("k") != "Q":
            chk.violation("quantize did not return a quantity",
                          dict(info=info, obs=obs, steps=steps, want=str(want)),
                          "quantize-raises")
            return
        bad = []
        if r["u"] != q["u"] or r["uid"] != q["uid"]:
            bad.append("unit changed")
        if r["t"] != q["t"]:
            bad.append("type changed")
        if r["at"] not in EXACT_TYPES:
            bad.append("amount type %s" % r["at"])
        if val(r) != want:
            bad.append("amount %s, expected %s" % (val(r), want))
        if bad:
            chk.violation("quantize: " + "; ".join(bad),
                          dict(info=info, obs=obs, steps=steps,
                               want=str(want)), "quantize-value")
        for m_ in sweep:
            r2 = obs.get("r:" + m_)
            w2 = RM.round_to(xs, gs, m_)
            chk.count("same quantity and quantum under a sequence of "
                      "default modes")
            if r2 is None or r2.get("k") != "Q" or val(r2) != w2:
                chk.violation(
                    "quantize under default mode %s after other modes in the "
                    "same process: got %s, expected %s" % (m_, brief(r2), w2),
                    dict(info=info, obs=obs, steps=steps, want=str(w2)),
                    "quantize-mode-sequence")
                break
        chk.sample(dict(info=info, stored=str(xs), quantum=str(gs),
                        got=str(val(r)), want=str(want)))
    return Case(steps, judge, info)


def gen_round(rng, chk):
    tname = rng.choice(["Length", "Mass", "Velocity", "Energy"])
    u = rng.choice(SI.units_of(tname))
    n = rng.choice([0, 1, 2, 3, 6, -1, -2, None])
    kind = rng.choice(["tie", "rand", "frac"])
    nn = n
    if n is None:
        n = 0
    if kind == "tie":
        x = (F(rng.randint(-500, 500)) + F(1, 2)) / F(10) ** n
    elif kind == "rand":
        x = F(rng.randint(-10 ** 9, 10 ** 9), 10 ** rng.randint(0, 9))
    else:
        x = F(rng.randint(-10 ** 6, 10 ** 6), rng.choice([3, 7, 11, 13, 6]))
    as_fraction = dec_str(x) is None or rng.random() < 0.4
    steps = [{"id": "q", "k": "q", "e": Q(num(x, "F" if as_fraction else "D"),
                                          u)},
             {"k": "r", "e": (["round", V("q"), n] if nn is not None
                              else ["round", V("q")])}]
    info = dict(type=tname, u=u, x=str(x), n=nn, kind=kind)

    def judge(obs, rec, case):
        if obs is None or "q" not in obs:
            chk.inconclusive_because("C13 round case not observed")
            return
        q, r = obs["q"], obs.get("r")
        chk.case(("round", u, str(x), n), nontrivial=True)
        chk.count("round|" + kind)
        if nn is None:
            chk.count("round|digits omitted")
        if q.get("k") != "Q" or r is None or r.get("k") != "Q":
            chk.violation("round() did not return a quantity",
                          dict(info=info, obs=obs, steps=steps), "round-raises")
            return
        xs, rs = val(q), val(r)
        step = F(1) / F(10) ** n
        bad = []
        if r["u"] != q["u"] or r["uid"] != q["uid"] or r["t"] != q["t"]:
            bad.append("unit or type changed")
        if (rs / step).denominator != 1:
            bad.append("not a multiple of 10^-%d" % n)
        if abs(rs - xs) > step / 2:
            bad.append("further than half a step away")
        if r["at"] not in EXACT_TYPES:
            bad.append("amount type %s" % r["at"])
        if bad:
            chk.violation("round: " + "; ".join(bad),
                          dict(info=info, obs=obs, steps=steps), "round-value")
    return Case(steps, judge, info)


def gen_reject(rng, chk):
    kind = rng.choice(["othertype", "noref-temp", "noref-money",
                       "noref-money-two-currencies", "noref-user-unit",
                       "subclass-quantum", "not-a-quantity"])
    zero = rng.random() < 0.35
    pre = []
    if kind == "othertype":
        t1, t2 = rng.sample(SI.LINEAR_TYPES, 2)
        a = Q(num(F(0) if zero else F(rng.randint(1, 99), 4),
                  rng.choice(["D", "F"])), rng.choice(SI.units_of(t1)))
        b = Q(num(F(1)), rng.choice(SI.units_of(t2)))
    elif kind == "noref-temp":
        a = Q(num(F(0) if zero else F(215, 10)),
              rng.choice(["°C", "K", "°F"]))
        b = Q(num(F(1, 2)), rng.choice(["°C", "K", "°F"]))
    elif kind == "noref-money-two-currencies":
        # quantity and quantum in different units that nothing converts
        # (no money converter is active): still a TypeError, the type has no
        # reference unit
        MON = ["g", "quantity.money:Money"]
        a = ["c", MON, [num(F(0) if zero else F(1234, 100)),
                        ["m", MON, "register_currency", [["s", "EUR"]]]]]
        b = ["c", MON, [num(F(5, 100)),
                        ["m", MON, "register_currency", [["s", "USD"]]]]]
    elif kind == "not-a-quantity":
        # a quantum that is no quantity at all is "of another type" too
        a = Q(num(F(0) if zero else F(215, 10)), rng.choice(["m", "kg", "s"]))
        b = rng.choice([["i", 5], ["D", "0.5"], U("m"), ["s", "1 m"],
                        ["none"], ["fl", (0.25).hex()]])
    elif kind == "subclass-quantum":
        # a subclass with a reference unit of its own is another type, in
        # both directions (an instance of it IS an instance of the parent)
        pre = [{"cls": {"name": "Sub13",
                        "base": ["g", "quantity.predefined:Length"],
                        "kw": {"ref_unit_symbol": ["s", "s13"]}}}]
        a = Q(num(F(0) if zero else F(34591, 20)), rng.choice(["m", "km"]))
        b = Q(num(F(1)), "s13")
        if rng.random() < 0.5:
            a, b = Q(num(F(0) if zero else F(34591, 20)), "s13"), \
                Q(num(F(1)), "m")
    elif kind == "noref-user-unit":
        # a user's multiple of the kelvin: no converter row names it
        TEMP = ["g", "quantity.predefined:Temperature"]
        # declared once per interpreter; a repeated attempt fails harmlessly
        pre = [{"e": M(TEMP, "new_unit", ["s", "mK13"], ["s", "Millikelvin"],
                       OP("*", ["D", "0.001"], U("K")))}]
        a = Q(num(F(0) if zero else F(215, 10)), rng.choice(["°C", "K"]))
        b = Q(num(F(1, 2)), "mK13")
        if rng.random() < 0.5:
            a, b = Q(num(F(0) if zero else F(215, 10)), "mK13"), \
                Q(num(F(1, 2)), rng.choice(["°C", "K", "°F"]))
    else:
        a = ["c", ["g", "quantity.money:Money"],
             [num(F(0) if zero else F(1234, 100)),
              ["m", ["g", "quantity.money:Money"],
                                  "register_currency", [["s", "EUR"]]]]]
        b = ["c", ["g", "quantity.money:Money"],
             [num(F(5, 100)), ["m", ["g", "quantity.money:Money"],
                               "register_currency", [["s", "EUR"]]]]]
    steps = pre + [{"id": "q", "k": "q", "e": a},
                   {"id": "g", "k": "g", "e": b},
                   {"k": "r", "e": M(V("q"), "quantize", V("g"))}]
    info = dict(kind=kind)

    def judge(obs, rec, case):
        if obs is None:
            chk.inconclusive_because("C13 reject case not observed")
            return
        chk.case(("reject", kind, str(a), str(b)), nontrivial=True)
        chk.count("reject|" + kind)
        if zero:
            chk.count("reject|zero amount")
        r = obs.get("r")
        if obs.get("q", {}).get("k") != "Q" or (
                kind != "not-a-quantity" and
                obs.get("g", {}).get("k") != "Q"):
            chk.violation("constructing operands failed",
                          dict(info=info, obs=obs, steps=steps), "construct")
        elif not is_exc(r, "TypeError"):
            chk.violation("quantum of another type / type without reference "
                          "unit not rejected with TypeError",
                          dict(info=info, obs=obs, steps=steps),
                          "quantize-reject")
    return Case(steps, judge, info)


def run(chk, R, tier, seed):
    rng = random.Random("C13-%d" % seed)
    n_grid = 5 if tier == "quick" else 40
    rounds = 1 if tier == "quick" else 8
    for mode in RM.MODES:
        for rep in ("D", "F"):
            for tie in ("tie", "notie"):
                for sign in ("pos", "neg"):
                    chk.require("%s|%s|%s|%s" % (mode, rep, tie, sign))
    for mode in RM.MODES:
        chk.require("zero-corner-tie|%s|F" % mode)
        chk.require("zero-corner-tie|%s|D" % mode)
    chk.require("round|tie")
    chk.require("same quantity and quantum under a sequence of default modes")
    chk.require("round|digits omitted")
    chk.require("reject|othertype")
    chk.require("reject|zero amount")
    chk.require("reject|noref-temp")
    chk.require("reject|noref-money")
    chk.require("reject|noref-money-two-currencies")
    chk.require("reject|noref-user-unit")
    chk.require("reject|subclass-quantum")
    chk.require("reject|not-a-quantity")
    chk.extra["rounding_model_selfcheck_cases"] = RM.SELFCHECK_CASES
    for _ in range(rounds):
        cases = []
        for mode in RM.MODES:
            for explicit in (True, False):
                for as_fraction in (False, True):
                    for tname in TYPES:
                        for _ in range(n_grid * 12):
                            cases.append(gen_case(rng, chk, mode, explicit,
                                                  as_fraction, tname))
        for _ in range(600 if tier == "quick" else 3000):
            cases.append(gen_round(rng, chk))
        for _ in range(60 if tier == "quick" else 300):
            cases.append(gen_reject(rng, chk))
        rng.shuffle(cases)
        run_cases(chk, R, cases, per_program=60)
