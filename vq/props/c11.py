"""C11 -- money converter yields the right rate for every update history and
date."""
from __future__ import annotations

import datetime
import random
from fractions import Fraction as F

from ..cases import Case, run_cases, Q, U, V, M, OP
from ..ctl import num, val, is_exc
from ..oracle import brief
from .c09 import parse_rate

RULE = ("seeded histories of 1..25 interleaved update / get_rate / call steps "
        "on a fresh MoneyConverter: 3-6 currencies named as Currency objects "
        "or ISO codes, validity None / year / month / day in every spelling, "
        "overlapping and repeated keys, kind-mixing attempts, updates that "
        "fail on an invalid rate spec (of any kind of period, also before "
        "the first accepted update), lookups for "
        "dates inside, adjacent to and far from each period, explicit date "
        "or the default-date callable (a counting stub whose value changes "
        "during the history); non-trivial = lookup after at least one update; "
        "distinct by history")
ANCHORS = ("MoneyConverter.update", "MoneyConverter.get_rate",
           "MoneyConverter._get_rate", "MoneyConverter.__call__")

XR = ["g", "quantity.money:ExchangeRate"]
MCLS = ["g", "quantity.money:MoneyConverter"]
MONEY = ["g", "quantity.money:Money"]
CODES = ["EUR", "USD", "GBP", "JPY", "CHF", "HKD"]
REL_TOL = F(2, 10 ** 5)


def period_of(kind, d):
    if kind == "none":
        return None
    if kind == "year":
        return d.year
    if kind == "month":
        return (d.year, d.month)
    return d


def spell(rng, kind, per):
    """expression for a validity period in a random documented spelling"""
    if kind == "none":
        return ["none"], "None"
    if kind == "year":
        if rng.random() < 0.5:
            return ["i", per], "int"
        return ["s", "%04d" % per], "year-str"
    if kind == "month":
        r = rng.random()
        if r < 0.35:
            return ["t", [["i", per[0]], ["i", per[1]]]], "tuple"
        if r < 0.55:
            # "a tuple of two ints (or two strings convertable to an int)"
            return ["t", [["s", "%04d" % per[0]],
                          ["s", rng.choice(["%02d", "%d"]) % per[1]]]], \
                "tuple-of-strings"
        return ["s", "%04d-%02d" % per], "month-str"
    if rng.random() < 0.5:
        return ["date", per.year, per.month, per.day], "date"
    return ["s", per.isoformat()], "date-str"


def rand_date(rng):
    r = rng.random()
    if r < 0.25:
        return rng.choice([datetime.date(2020, 2, 29),
                           datetime.date(2021, 1, 1),
                           datetime.date(2020, 12, 31),
                           datetime.date(2021, 3, 31),
                           datetime.date(2021, 4, 1),
                           datetime.date(2021, 2, 28),
                           datetime.date(2021, 3, 1)])
    return datetime.date(rng.choice([2019, 2020, 2021, 2021, 2022]),
                         rng.randint(1, 12), rng.randint(1, 28))


def neighbours(d):
    one = datetime.timedelta(days=1)
    return [d, d - one, d + one, d.replace(day=1),
            (d.replace(day=1) - one), d + datetime.timedelta(days=366),
            d - datetime.timedelta(days=365)]


def history_case(chk, rng, hi):
    ncur = rng.randint(3, 6)
    codes = rng.sample(CODES, ncur)
    base = codes[0]
    others = codes[1:]
    kind = rng.choice(["none", "year", "month", "day"])
    length = rng.randint(1, 25)
    today_default = rng.random() < 0.12
    steps = [{"id": "stub", "e": ["stub", "d%d" % hi]},
             {"setstub": ["d%d" % hi, ["date", 2021, 3, 4]]},
             {"id": "mc", "k": "mc",
              "e": ["c", MCLS, [U(base)] + ([] if today_default
                                            else [V("stub")])]}]
    table = {}          # (period, code) -> (um, ta)
    cur_kind = None
    stub_date = datetime.date(2021, 3, 4)
    if today_default:
        # no callable configured: the documented default is date.today
        stub_date = datetime.date.today()
    used_periods = [stub_date] if today_default else []
    checks = []         # (key, kind, payload)
    tags = set()
    for i in range(length):
        r = rng.random()
        if r < 0.45 or not table and r < 0.8:
            # update
            k = kind
            mixing = False
            if cur_kind is not None and rng.random() < 0.12:
                k = rng.choice([x for x in ("none", "year", "month", "day")
                                if x != cur_kind])
                mixing = True
            d = rng.choice(used_periods) if used_periods and \
                rng.random() < 0.5 else rand_date(rng)
            per = period_of(k, d)
            vexpr, sp = spell(rng, k, per)
            specs = []
            writes = []
            for _ in range(rng.randint(1, 4)):
                c = rng.choice(others)
                um = rng.choice([1, 1, 1, 10, 100, 1000])
                ta = F(rng.randint(2, 40000), rng.choice([10, 100, 1000,
                                                          10000]))
                if abs(ta / um - 1) < F(1, 10):
                    ta += 3
                as_code = rng.random() < 0.4
                specs.append(["t", [["s", c] if as_code else U(c), num(ta),
                                    ["i", um]]])
                writes.append((c, um, ta, as_code))
            key = "u%d" % i
            # one update in ten carries a rate spec the library must refuse
            # (wherever it stands among valid ones, whatever the kind of
            # period, also as the very first update): the whole update
            # fails and the converter -- entries and kind -- is as before
            failing = rng.random() < 0.1
            if failing:
                if rng.random() < 0.5:
                    k = rng.choice(["none", "year", "month", "day"])
                    per = period_of(k, d)
                    vexpr, sp = spell(rng, k, per)
                c = rng.choice(others)
                badspec = rng.choice([
                    [U(c), ["i", 0], ["i", 1]],
                    [U(c), num(F(11, 10)), ["i", 0]],
                    [U(c), ["i", -3], ["i", 1]],
                    [["s", "ZZ9"], num(F(11, 10)), ["i", 1]],
                    [U(base), num(F(11, 10)), ["i", 1]]])
                specs.insert(rng.randint(0, len(specs)), ["t", badspec])
            cont = rng.choice(["list", "list", "tuple", "iterator"])
            sexpr = {"list": ["l", specs], "tuple": ["t", specs],
                     "iterator": ["c", ["g", "builtins:iter"],
                                  [["l", specs]]]}[cont]
            if not mixing and not failing:
                tags.add("rate specs given as " + cont)
            steps.append({"k": key, "e": M(V("mc"), "update", vexpr, sexpr)})
            if failing:
                checks.append((key, "fail", None))
                tags.add("updates with a refused rate spec")
                if cur_kind is None:
                    tags.add("refused update before the first accepted one")
            elif mixing:
                checks.append((key, "reject", None))
                tags.add("kind-mixing rejections")
            else:
                if cur_kind is None:
                    cur_kind = k
                for c, um, ta, as_code in writes:
                    if (per, c) in table:
                        tags.add("overwrites")
                    table[(per, c)] = (um, ta)
                    if as_code:
                        tags.add("currency given as ISO code")
                used_periods.append(d)
                checks.append((key, "accept", None))
                tags.add("spelling|" + sp)
        elif r < 0.55 and not today_default:
            stub_date = rng.choice(neighbours(rng.choice(used_periods))) \
                if used_periods else rand_date(rng)
            steps.append({"setstub": ["d%d" % hi, ["date", stub_date.year,
                                                    stub_date.month,
                                                    stub_date.day]]})
        else:
            a, b = rng.choice(codes), rng.choice(codes)
            if rng.random() < 0.85 and a == b:
                b = rng.choice([c for c in codes if c != a])
            use_default = rng.random() < 0.3
            drift = use_default and bool(used_periods) and \
                rng.random() < 0.7 and not today_default
            for rep in range(2 if drift else 1):
                if rep == 1:
                    # the default date moves on (no update in between):
                    # the same dateless lookup must follow it
                    stub_date = rng.choice(neighbours(
                        rng.choice(used_periods)))
                    steps.append({"setstub": ["d%d" % hi,
                                              ["date", stub_date.year,
                                               stub_date.month,
                                               stub_date.day]]})
                    tags.add("dateless lookup repeated after the default "
                             "date moved")
                if use_default:
                    d = stub_date
                    dexpr = []
                else:
                    d = rng.choice(neighbours(rng.choice(used_periods))) \
                        if used_periods and rng.random() < 0.8 else rand_date(rng)
                    dexpr = [["date", d.year, d.month, d.day]]
                per = period_of(cur_kind, d) if cur_kind else None

                def entry(c):
                    if cur_kind is None:
                        return None
                    return table.get((per, c))
                key = "%s%d" % ("gh"[rep], i)
                steps.append({"id": "r", "k": key,
                              "e": M(V("mc"), "get_rate", U(a), U(b), *dexpr)})
                amount = F(rng.randint(1, 10 ** 6))    # on every currency grid
                steps.append({"k": key + ".call",
                              "e": ["c", V("mc"), [Q(num(amount), a), U(b)] +
                                    dexpr]})
                exp = None
                if a == b:
                    form = "identity"
                    exact = F(1)
                    ok = True
                elif a == base:
                    form = "direct"
                    e = entry(b)
                    ok = e is not None
                    if ok:
                        exact = e[1] / e[0]
                        exp = ["c", XR, [U(a), ["i", e[0]], U(b), num(e[1])]]
                elif b == base:
                    form = "inverse"
                    e = entry(a)
                    ok = e is not None
                    if ok:
                        exact = e[0] / e[1]
                        exp = M(["c", XR, [U(base), ["i", e[0]], U(a),
                                           num(e[1])]], "inverted")
                else:
                    form = "cross"
                    ea, eb = entry(a), entry(b)
                    ok = ea is not None and eb is not None
                    if ok:
                        exact = (eb[1] / eb[0]) / (ea[1] / ea[0])
                        ra = ["c", XR, [U(base), ["i", ea[0]], U(a), num(ea[1])]]
                        rb = ["c", XR, [U(base), ["i", eb[0]], U(b), num(eb[1])]]
                        exp = ["c", XR, [U(a), ["i", 1], U(b),
                                         OP("/", ["a", rb, "rate"],
                                            ["a", ra, "rate"])]]
                if exp is not None:
                    steps.append({"k": key + ".exp", "e": exp})
                neighbour = ok is False and cur_kind not in (None, "none") and \
                    any(c2 in (a, b) for (p2, c2) in table)
                checks.append((key, "lookup",
                               dict(a=a, b=b, form=form, ok=ok,
                                    exact=exact if ok else None, amount=amount,
                                    default=use_default, date=d.isoformat(),
                                    neighbour=neighbour)))
    desc = dict(base=base, codes=codes, kind=kind, length=length)

    def judge(obs, rec, case):
        if not obs or "mc" not in obs:
            chk.inconclusive_because("converter history not observed")
            return
        chk.case(("hist", hi, str(desc)), nontrivial=bool(table))
        chk.count("histories")
        if today_default:
            chk.count("histories with the built-in default date (today)")
        for t in tags:
            chk.count(t)
        bad = []
        mech = "rate-selection"
        for key, what, p in checks:
            r = obs.get(key)
            if what == "accept":
                chk.count("updates")
                if r is None or r.get("k") == "E":
                    bad.append("%s: valid update rejected: %s" %
                               (key, brief(r)))
            elif what == "fail":
                if r is None or r.get("k") != "E":
                    bad.append("%s: update with an invalid rate spec "
                               "accepted: %s" % (key, brief(r)))
            elif what == "reject":
                if not is_exc(r, "ValueError"):
                    bad.append("%s: mixing kinds of validity not rejected "
                               "with ValueError: %s" % (key, brief(r)))
            else:
                chk.count("lookup|" + p["form"] +
                          ("" if p["ok"] else "-missing"))
                if p["default"]:
                    chk.count("default-date lookups")
                if p["neighbour"]:
                    chk.count("lookups hitting a neighbouring period")
                call = obs.get(key + ".call")
                if p["form"] == "identity":
                    x = parse_rate(r)
                    if is_exc(r, "ValueError"):
                        chk.violation(
                            "get_rate(%s, %s) raises instead of reporting a "
                            "rate of one: %s" % (p["a"], p["b"], brief(r)),
                            dict(desc=desc, steps=steps, key=key),
                            "identity-rate-raises")
                    elif x is None or x["rate"] != 1:
                        bad.append("%s: rate between %s and itself is %s" %
                                   (key, p["a"], brief(r)))
                    continue
                if not p["ok"]:
                    if r is None or r.get("k") != "None":
                        bad.append("%s: %s->%s on %s: a needed entry is "
                                   "missing, expected None, got %s" %
                                   (key, p["a"], p["b"], p["date"],
                                    brief(r) if r and r.get("k") != "X"
                                    else r.get("repr")))
                    if not is_exc(call, "UnitConversionError"):
                        bad.append("%s: call without rate gives %s" %
                                   (key, brief(call)))
                    continue
                x = parse_rate(r)
                if x is None and is_exc(r, "ValueError") and \
                        p["exact"] < F(1000001, 10 ** 12):
                    # below the smallest representable rate (C09's limit)
                    chk.count("rates below 0.000001 (accepted rejection)")
                    continue
                if x is None:
                    bad.append("%s: %s->%s (%s) on %s: expected a rate near "
                               "%s, got %s" % (key, p["a"], p["b"], p["form"],
                                               p["date"], p["exact"],
                                               brief(r)))
                    continue
                if x["uc"] != p["a"] or x["tc"] != p["b"]:
                    bad.append("%s: direction %s->%s, asked %s->%s" %
                               (key, x["uc"], x["tc"], p["a"], p["b"]))
                if abs(x["rate"] - p["exact"]) > REL_TOL * p["exact"]:
                    bad.append("%s: %s->%s (%s) on %s: rate %s, the selected "
                               "entries give %s" %
                               (key, p["a"], p["b"], p["form"], p["date"],
                                x["rate"], p["exact"]))
                ex = parse_rate(obs.get(key + ".exp"))
                if ex is not None and (ex["um"], ex["ta"]) != \
                        (x["um"], x["ta"]):
                    bad.append("%s: stored rate %s/%s differs from the rate "
                               "built from the selected entries %s/%s" %
                               (key, x["ta"], x["um"], ex["ta"], ex["um"]))
                if call is None or call.get("k") != "N" or \
                        val(call) != p["amount"] * x["rate"]:
                    bad.append("%s: calling the converter gives %s, amount x "
                               "reported rate is %s" %
                               (key, brief(call), p["amount"] * x["rate"]))
        if bad:
            if any("ISO" in t for t in tags):
                mech = "rate-selection (history names currencies by ISO code)"
            chk.violation("history %s: %s" % (desc, "; ".join(bad[:3])),
                          dict(desc=desc, problems=bad[:10], steps=steps,
                               obs=obs), mech)
        elif checks:
            chk.sample(dict(desc=desc, steps=len(steps)))
    return Case(steps, judge)


def run(chk, R, tier, seed):
    rng = random.Random("C11-%d" % seed)
    for c in ("overwrites", "lookups hitting a neighbouring period",
              "lookup|direct", "lookup|inverse", "lookup|cross",
              "lookup|identity", "lookup|direct-missing",
              "lookup|cross-missing", "default-date lookups",
              "kind-mixing rejections", "currency given as ISO code",
              "spelling|None", "spelling|int", "spelling|year-str",
              "spelling|tuple", "spelling|month-str", "spelling|date",
              "spelling|date-str",
              "dateless lookup repeated after the default date moved",
              "histories with the built-in default date (today)",
              "updates with a refused rate spec",
              "refused update before the first accepted one"):
        chk.require(c)
    prelude = [{"e": M(MONEY, "register_currency", ["s", c])} for c in CODES]
    n = 3000 if tier == "quick" else 40000
    done = 0
    while done < n:
        m = min(n - done, 8000)
        cases = [history_case(chk, rng, done + i) for i in range(m)]
        run_cases(chk, R, cases, per_program=25, prelude=prelude)
        done += m
