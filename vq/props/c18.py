"""C18 -- construction is exact and the text form round-trips."""
from __future__ import annotations

import random
from fractions import Fraction as F

from ..cases import Case, run_cases, world_program, Q, U, V, M, OP, QUANTITY
from ..ctl import num, val, is_exc, dec_str, EXACT_TYPES
from ..gen import (random_plan, rand_fraction, rand_float_fraction,
                   enc_amount, Decl)
from ..models import si_table as SI
from ..models import rounding as RM
from ..models.world import predefined_world
from ..ops import computed
from ..oracle import brief

RULE = ("all 113 predefined units (+ synthetic units with non-ASCII, "
        "compound and blank-containing symbols) x numeric inputs of every "
        "kind (int, Fraction, decimalfp/stdlib Decimal, float incl. 1e300 / "
        "5e-324, numeric strings incl. exponent, underscore, n/d, non-ASCII "
        "digits) x generic and typed factory and number*unit; str/format/"
        "re-parse; parse with another unit; malformed strings from a "
        "grammar-based mutator; non-trivial = every case; distinct by (unit, "
        "input, kind)")
ANCHORS = ("Quantity.__new__", "Quantity.__str__", "Quantity.__format__")

NUMSTR = ["1e3", "1E-3", ".5", "5.", "+5", "-0.25", "1_000", "2/3", "-7/4",
          "١٢٣", "0", "00012.500", "1e-30", "123456789012345678901234567890."
          "123456789", "  7", "+1/3", "3e0", "1.5E+2"]
FLOATS = [1e300, 5e-324, 1e-7, 0.1, 2.675, -0.0, 1.7976931348623157e308,
          2.2250738585072014e-308, 123456789.123456789, -3.5]


def typed(sym):
    return ["a", U(sym), "qty_cls"]


def ctor_sub(chk, rng, w, wid, sym, plan=None):
    kind = rng.choice(["int", "F", "D", "SD", "fl", "s", "s", "bigint",
                       "numstr", "longdec"] * 3 + ["bool"])
    if kind == "bool":
        b = rng.random() < 0.5
        x = F(int(b))
        e = ["b", b]
    elif kind == "fl":
        f = rng.choice(FLOATS) if rng.random() < 0.6 else \
            float(rand_float_fraction(rng))
        x = F(f)
        e = ["fl", f.hex()]
    elif kind == "numstr":
        s = rng.choice(NUMSTR)
        x = F(s.strip())
        e = ["s", s]
    elif kind == "longdec":
        # more significant digits than the default decimal context keeps
        digits = rng.randint(29, 60)
        v = rng.randint(10 ** (digits - 1), 10 ** digits - 1) | 1
        x = F(v, 10 ** rng.randint(0, digits + 5)) * rng.choice([1, -1])
        e = num(x, rng.choice(["SD", "D", "s"]))
        kind = "longdec-" + e[0]
    elif kind == "bigint":
        x = F(rng.randint(10 ** 39, 10 ** 40) * rng.choice([1, -1]))
        e = num(x, "int")
    else:
        x = rand_fraction(rng)
        if kind == "int":
            x = F(int(x))
        e, kind = enc_amount(rng, x, (kind,))
    via = rng.choice(["factory", "type", "mul", "rmul"])
    if kind == "numstr" and rng.random() < 0.5:
        # the same spelling of the amount inside amount-and-symbol text
        via = rng.choice(["text", "typed-text"])
        c = ["c", QUANTITY if via == "text" else typed(sym),
             [["s", "%s %s" % (e[1].strip(), sym)]]]
    elif via == "factory":
        c = Q(e, sym)
    elif via == "type":
        c = ["c", typed(sym), [e, U(sym)]]
    elif kind in ("s", "numstr", "SD", "longdec-s", "longdec-SD"):
        via = "factory"
        c = Q(e, sym)
    elif via == "mul":
        c = OP("*", e, U(sym))
    else:
        c = OP("*", U(sym), e)
    if kind in ("D", "F", "int") and via == "factory":
        # the same quantity as the result of an operation: text and
        # re-parsing of amounts that no constructor call wrote
        ce = computed(rng, w, x, sym)
        if ce is not None:
            c, via = ce, "computed"
    others = [u.sym for u in w.units_of(w.units[sym].tname)
              if w.convertible(sym, u.sym)]
    other = rng.choice(others)
    steps = [{"id": "q", "k": "q", "e": c},
             {"id": "s", "k": "str", "e": ["un", "str", V("q")]},
             {"k": "fmt", "e": ["format", V("q")]},
             {"k": "astr", "e": ["un", "str", ["a", V("q"), "amount"]]},
             {"k": "p1", "e": ["c", QUANTITY, [V("s")]]},
             {"k": "p2", "e": ["c", typed(sym), [V("s")]]},
             {"k": "pu", "e": ["c", typed(sym), [V("s"), U(other)]]},
             {"k": "cv", "e": M(["c", typed(sym), [V("s")]], "convert",
                                U(other))},
             {"k": "tu", "e": U(sym)},
             {"k": "bare", "e": ["c", typed(sym), [["s", "12.5"]]]}]
    # ... also where the conversion is impossible: a unit of the same type
    # that nothing converts to (types without reference unit), or a unit of
    # another type
    same = [u.sym for u in w.units_of(w.units[sym].tname)
            if not w.convertible(sym, u.sym)]
    foreign = [u_ for u_ in w.units
               if w.units[u_].tname != w.units[sym].tname]
    nc = None
    if same and (not foreign or rng.random() < 0.6):
        nc = rng.choice(same)
    elif foreign:
        nc = rng.choice(foreign)
    if nc is not None:
        steps += [{"k": "pn", "e": ["c", typed(sym), [V("s"), U(nc)]]},
                  {"k": "pg", "e": ["c", QUANTITY, [V("s"), U(nc)]]},
                  {"k": "cn", "e": M(["c", typed(sym), [V("s")]], "convert",
                                     U(nc))}]
    info = dict(world=wid, sym=sym, kind=kind, via=via, x=str(x), other=other)

    def judge(obs):
        if not obs or "q" not in obs:
            chk.inconclusive_because("construction case not observed")
            return
        q = obs["q"]
        wit = dict(info=info, obs=obs, steps=steps)
        if plan is not None:
            wit["declarations"] = plan
        chk.case((wid, sym, kind, via, str(x)))
        chk.count("kind|" + kind)
        chk.count("via|" + via)
        if kind == "fl" and x != 0 and (abs(x) < F(1, 10 ** 300) or
                                        x.denominator > 10 ** 300):
            chk.count("floats needing > 300 digits")
        if q.get("k") != "Q":
            chk.violation("construction from %s %s failed: %s" %
                          (kind, x, brief(q)), wit, "construct-raises")
            return
        qq = w.quantum_of(sym)
        want = x if qq is None else RM.round_to(x, qq, RM.DEFAULT_MODE)
        bad = []
        if val(q) != want:
            bad.append("amount %s, the input's exact value is %s" %
                       (val(q), want))
        if q["at"] not in EXACT_TYPES:
            bad.append("amount held as %s" % q["at"])
        if q["u"] != sym or q["uid"] != obs.get("tu", {}).get("uid") or \
                q["t"] != w.units[sym].tname:
            bad.append("unit/type %s %s" % (q["t"], q["u"]))
        s = obs.get("str", {}).get("v")
        astr = obs.get("astr", {}).get("v")
        if s is None or s != "%s %s" % (astr, sym):
            bad.append("str(q) = %r is not amount, blank, symbol (%r %r)" %
                       (s, astr, sym))
        if obs.get("fmt", {}).get("v") != s:
            bad.append("format(q) = %r != str(q) = %r" %
                       (obs.get("fmt", {}).get("v"), s))
        for key in ("p1", "p2"):
            p = obs.get(key, {})
            if p.get("k") != "Q" or p["t"] != q["t"] or \
                    p["uid"] != q["uid"] or val(p) != val(q):
                bad.append("re-parsing str(q) through the %s gives %s, not "
                           "%s" % ("generic factory" if key == "p1" else
                                   "type", brief(p), brief(q)))
        bare = obs.get("bare", {})
        tref = w.types[w.units[sym].tname].ref
        if tref is not None:
            wantb = F(25, 2)
            qb = w.quantum_of(tref)
            if qb is not None:
                wantb = RM.round_to(wantb, qb, RM.DEFAULT_MODE)
            if bare.get("k") != "Q" or bare["u"] != tref or \
                    val(bare) != wantb or bare["t"] != w.units[sym].tname:
                bad.append("T('12.5') gives %s, expected 12.5 %s" %
                           (brief(bare), tref))
        elif not is_exc(bare, "QuantityError"):
            bad.append("T('12.5') in a type without reference unit gives %s"
                       % brief(bare))
        pu, cv = obs.get("pu", {}), obs.get("cv", {})
        if pu.get("k") != "Q" or cv.get("k") != "Q" or \
                val(pu) != val(cv) or pu["u"] != cv["u"] or \
                pu["u"] != other:
            bad.append("parsing with unit %s gives %s, parse-then-convert "
                       "gives %s" % (other, brief(pu), brief(cv)))
        if nc is not None:
            pn, pg, cn = obs.get("pn", {}), obs.get("pg", {}), \
                obs.get("cn", {})
            chk.count("parse with a unit nothing converts to")
            chk.count("parse with a unit nothing converts to|%s" %
                      ("same type" if nc in same else "other type"))
            want = "UnitConversionError" if nc in same \
                else "IncompatibleUnitsError"
            if not is_exc(cn, want):
                pass        # conversion itself is C01 / C14 business
            elif not (is_exc(pn, want) and is_exc(pg, want)):
                bad.append("parse-then-convert to %s raises %s, parsing "
                           "with that unit gives %s (typed), %s (generic)" %
                           (nc, want, brief(pn), brief(pg)))
        if bad:
            chk.violation("%s from %s %s via %s: %s" %
                          (sym, kind, x, via, "; ".join(bad[:3])), wit,
                          "float" if any("float" in b for b in bad)
                          else "construct-value")
        else:
            chk.sample(dict(info=info, str=s))
    return steps, judge


MALFORMED_CLASSES = ["non-numeric", "missing-blank", "unknown-symbol",
                     "empty", "symbol-only", "number-only", "zero-division",
                     "double-point", "tab-separator", "other-type-symbol",
                     "garbage-exponent", "nan", "mutated",
                     "non-decimal-digits", "percent-sign",
                     "symbol-of-a-rejected-declaration"]


_REJ = [0]


def malformed_sub(chk, rng, w, wid, sym):
    cls = rng.choice(MALFORMED_CLASSES)
    pre_steps = []
    tname = w.units[sym].tname
    use_type = rng.random() < 0.5
    if cls == "non-numeric":
        txt = rng.choice(["abc", "x1", "1x", "one", "0x10", "1,5"]) + " " + sym
    elif cls == "missing-blank":
        txt = "5" + sym
        try:
            F(txt)
            txt = "5;" + sym        # '5e0' would be a valid number
        except (ValueError, ZeroDivisionError):
            pass
    elif cls == "unknown-symbol":
        txt = "5 " + rng.choice(["xyz", "qq", sym + "_", "?" + sym, "m m"])
        if txt[2:] in w.units:
            txt = "5 nosuchunit"
    elif cls == "empty":
        txt = rng.choice(["", " ", "   "])
    elif cls == "symbol-only":
        txt = sym
    elif cls == "number-only":
        txt = rng.choice(["5", "5 ", " 2.5"])
        use_type = False
    elif cls == "zero-division":
        txt = rng.choice(["1/0", "-3/0", "0/0"]) + " " + sym
    elif cls == "double-point":
        txt = rng.choice(["1.5.2", "1..5", "1e5e2", "--5", "+-5", "5-"]) + \
            " " + sym
    elif cls == "tab-separator":
        txt = "5\t" + sym
    elif cls == "other-type-symbol":
        others = [s for s in w.units if w.units[s].tname != tname]
        txt = "5 " + rng.choice(others)
        use_type = True
    elif cls == "garbage-exponent":
        txt = rng.choice(["5e", "e5", "5e+", "1/", "/2", "1/2/3"]) + " " + sym
    elif cls == "non-decimal-digits":
        # characters str.isdigit() / isnumeric() accept but no number parser
        txt = rng.choice(["5\u00b2", "\u00b2", "3\u00b3", "\u2460", "1\u2082",
                          "\u00b9", "\u00bd", "\u2167", "1\u00b2.5",
                          "\u0663\u066b\u0665"]) + " " + sym
    elif cls == "percent-sign":
        # text that is dangerous for %-formatting of the error message
        cands = ["5 %", "12%", "12.5 %s", "100 %" + sym, "%d " + sym,
                 "5 %(x)s", "%", "3 % " + sym, "7 %%"]
        # ... but not a text that is well formed in this world (a unit may
        # be called '%')
        cands = [c for c in cands
                 if not (" " in c.strip() and
                         c.strip().split(" ", 1)[1].strip() in w.units and
                         c.strip().split(" ", 1)[0][:1].isdigit())]
        txt = rng.choice(cands)
        use_type = rng.random() < 0.5
    elif cls == "symbol-of-a-rejected-declaration":
        # a symbol somebody tried to declare (the attempt was refused) is
        # still an unknown symbol
        _REJ[0] += 1
        rsym = "XR%d" % _REJ[0]
        MON = ["g", "quantity.money:Money"]
        bad_kw = rng.choice([{"smallest_fraction": ["s", "0.03"]},
                             {"smallest_fraction": ["i", 0]},
                             {"minor_unit": ["i", -1]},
                             {"minor_unit": ["i", 2],
                              "smallest_fraction": ["D", "0.001"]}])
        txt = "5 " + rsym
        use_type = False
        pre_steps = [{"k": "rej", "e": ["m", MON, "new_unit",
                                       [["s", rsym], ["s", "n"]], bad_kw]}]
    elif cls == "nan":
        txt = rng.choice(["nan", "inf", "-inf", "NaN", "Infinity"]) + " " + sym
    else:
        base = "%s %s" % (rng.choice(["12.5", "7", "2/3", "1e3"]), sym)
        i = rng.randrange(len(base))
        c = rng.choice("x$#@!()[]{}=~")
        if base[i] == " " or i >= base.index(" "):
            i = rng.randrange(base.index(" "))
        txt = base[:i] + c + base[i + 1:]
    fac = typed(sym) if use_type else QUANTITY
    steps = pre_steps + [{"k": "r", "e": ["c", fac, [["s", txt]]]}]

    def judge(obs):
        r = (obs or {}).get("r")
        if r is None:
            chk.inconclusive_because("malformed case not observed")
            return
        if pre_steps and (obs.get("rej") or {}).get("k") != "E":
            chk.count("malformed|declaration was not refused (C16's)")
            return
        chk.case((wid, "malformed", txt, use_type))
        chk.count("malformed|" + cls)
        if not is_exc(r, "QuantityError"):
            chk.violation("%s(%r): expected QuantityError, got %s" %
                          ("T" if use_type else "Quantity", txt, brief(r)),
                          dict(obs=obs, steps=steps, cls=cls),
                          "malformed|" + (r.get("cls") if r.get("k") == "E"
                                          else "accepted"))
    return steps, judge


def run(chk, R, tier, seed):
    rng = random.Random("C18-%d" % seed)
    for k in ("int", "F", "D", "SD", "fl", "s", "bigint", "numstr",
              "longdec-SD", "longdec-D", "longdec-s"):
        chk.require("kind|" + k)
    chk.require("floats needing > 300 digits")
    for c in MALFORMED_CLASSES:
        chk.require("malformed|" + c)
    chk.require("worlds")
    # the predefined catalogue plus three currencies (the quantum of money
    # comes from the unit, not from the type)
    w = predefined_world({"EUR": 2, "JPY": 0, "BHD": 3, "XNK": F(1, 20)})
    syms = list(SI.UNITS) + ["EUR", "JPY", "BHD", "XNK"]
    from ..cases import currency_steps
    prelude18 = currency_steps({"EUR": 2, "JPY": 0, "BHD": 3,
                                "XNK": F(1, 20)})
    wrap = lambda jd: (lambda obs, rec, case: jd(obs))      # noqa: E731
    cases = []
    per = 20 if tier == "quick" else 120
    for sym in syms:
        for _ in range(per):
            st, jd = ctor_sub(chk, rng, w, "predefined", sym)
            cases.append(Case(st, wrap(jd)))
    chk.exhaustive["predefined units"] = True
    for _ in range(500 if tier == "quick" else 8000):
        st, jd = malformed_sub(chk, rng, w, "predefined", rng.choice(syms))
        cases.append(Case(st, wrap(jd)))
    run_cases(chk, R, cases, per_program=80, prelude=prelude18)
    # synthetic worlds with awkward symbols
    nw = 50 if tier == "quick" else 400
    cases = []
    odd = ["µx", "a b", "x/y", "°X", "Ω", "m²s", "kg·m", "x_1", "a  b", "€",
           "%", "%s"]
    for wi in range(nw):
        plan, ww = random_plan(rng, noref=(wi % 2 == 1))
        lin = [t for t in ww.types.values() if t.has_ref]
        for j, sym in enumerate(rng.sample(odd, 4)):
            t = rng.choice(lin)
            d = Decl("scaled", t=t.name, sym=sym,
                     k=F(rng.choice([2, 10, 1000, 3]), rng.choice([1, 7])),
                     parent=t.ref)
            try:
                d.apply(ww)
                plan.append(d)
            except Exception:
                pass
        # a counting type: integral quantum written as a plain int, units
        # that are int multiples of the reference unit given as terms (their
        # own quantum is 1/12, 1/7: nothing here may become a float)
        for d in (Decl("base", name="Tally0", ref="cx0",
                       quantum=rng.choice([F(1), F(12)])),
                  Decl("term", t="Tally0", sym="cx12", kkind="int",
                       items=[(("n", F(12)), 1), (("u", "cx0"), 1)]),
                  Decl("term", t="Tally0", sym="cx7", kkind="int",
                       items=[(("n", F(7)), 1), (("u", "cx0"), 1)])):
            try:
                d.apply(ww)
                plan.append(d)
            except Exception:
                break
        planj = [d.to_json() for d in plan]
        wid = "world%d" % wi
        subs = []
        for sym in ww.units:
            subs.append(ctor_sub(chk, rng, ww, wid, sym, planj))
        for _ in range(6):
            subs.append(malformed_sub(chk, rng, ww, wid,
                                      rng.choice(list(ww.units))))
        cases.append(world_program(chk, plan, subs, wid))
    run_cases(chk, R, cases, preload=("quantity",))
