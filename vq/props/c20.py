"""C20 -- predefined catalogue matches SI / international definitions, docs."""
from __future__ import annotations

import random
import re
from fractions import Fraction as F

from ..cases import Case, run_cases, Q, U, V, M, OP
from ..ctl import num, val, is_exc, EXACT_TYPES
from ..models import si_table as SI
from ..oracle import brief

RULE = ("exhaustive: every predefined unit's scale against a hand-written "
        "SI / yard-pound table, every ordered unit pair per linear type x 3 "
        "amounts, compound units against the product of their components, "
        "all 20 SI prefixes (value and prefix*unit), every row of the tables "
        "in quantity.predefined.__doc__; non-trivial = every case; distinct "
        "by (check, symbols, amount)")
ANCHORS = ()


def run(chk, R, tier, seed):
    rng = random.Random("C20-%d" % seed)
    cases = []
    chk.require("unit scales checked", 100)
    chk.require("doc rows checked", 95)
    chk.require("prefixes", 20)
    chk.require("pairs", 1000)
    chk.require("unit quotients within a type", 300)
    chk.require("compound units", 25)
    chk.require("temperature doc equalities", 4)

    # -- scales of all units
    for sym, (tname, sc) in SI.UNITS.items():
        if sc is None:
            continue
        ref = SI.REF[tname]
        steps = [{"k": "r", "e": M(OP("*", ["i", 1], U(sym)), "convert",
                                   U(ref))},
                 {"k": "t", "e": U(sym)}]

        def judge(obs, rec, case, sym=sym, tname=tname, sc=sc, ref=ref,
                  steps=steps):
            if obs is None or "r" not in obs:
                chk.inconclusive_because("scale of %s not observed" % sym)
                return
            r, t = obs["r"], obs.get("t", {})
            if is_exc(t, "ValueError"):
                chk.count("units missing from the tree")
                return
            chk.case(("scale", sym))
            chk.count("unit scales checked")
            bad = []
            if t.get("t") != tname:
                bad.append("unit %s belongs to %s, table says %s" %
                           (sym, t.get("t"), tname))
            if r.get("k") != "Q" or r["u"] != ref:
                bad.append("conversion to %s failed: %s" % (ref, brief(r)))
            else:
                q = SI.QUANTUM.get(tname)
                if val(r) != sc:
                    bad.append("1 %s = %s %s, SI / international definition "
                               "says %s" % (sym, val(r), ref, sc))
                if r["at"] not in EXACT_TYPES:
                    bad.append("amount is a %s" % r["at"])
            if bad:
                chk.violation("; ".join(bad), dict(obs=obs, steps=steps),
                              "scale")
            else:
                chk.sample(dict(unit=sym, scale=str(sc), ref=ref))
        cases.append(Case(steps, judge))
    chk.exhaustive["all predefined units"] = True

    # -- all ordered pairs per type
    amts = [F(1), F(123456789, 1000), F(-7, 3), F(0)]
    for tname in SI.LINEAR_TYPES:
        us = SI.units_of(tname)
        for s1 in us:
            for s2 in us:
                for x in amts:
                    xq = x
                    if tname == "DataVolume":
                        xq = F(int(x))      # on every unit's grid
                    steps = [{"k": "r", "e": M(Q(num(xq), s1), "convert",
                                               U(s2))}]

                    def judge(obs, rec, case, s1=s1, s2=s2, xq=xq,
                              steps=steps, tname=tname):
                        r = (obs or {}).get("r")
                        if r is None:
                            chk.inconclusive_because("pair not observed")
                            return
                        chk.case(("pair", s1, s2, str(xq)))
                        chk.count("pairs")
                        want = xq * SI.scale(s1) / SI.scale(s2)
                        if tname == "DataVolume":
                            from ..models import rounding as RM
                            want = RM.round_to(want, SI.quantum_of(s2),
                                               RM.DEFAULT_MODE)
                        if r.get("k") != "Q" or val(r) != want or \
                                r["u"] != s2:
                            chk.violation(
                                "%s %s -> %s: got %s, ratio of reference "
                                "scales gives %s" % (xq, s1, s2, brief(r),
                                                     want),
                                dict(obs=obs, steps=steps), "pair")
                    cases.append(Case(steps, judge))
    chk.exhaustive["ordered unit pairs per linear type"] = True

    # -- quotient of two units of one type, both ways round and once more
    # (the plain number scale / scale, whatever was evaluated before)
    for tname in SI.LINEAR_TYPES:
        us = SI.units_of(tname)
        for i, s1 in enumerate(us):
            for s2 in us[i:]:
                steps = [{"k": "q12", "e": OP("/", U(s1), U(s2))},
                         {"k": "q21", "e": OP("/", U(s2), U(s1))},
                         {"k": "q12b", "e": OP("/", U(s1), U(s2))},
                         {"k": "qq", "e": OP("/", Q(["i", 3], s2), U(s1))}]

                def judge(obs, rec, case, s1=s1, s2=s2, steps=steps):
                    if not obs:
                        chk.inconclusive_because("unit quotient not observed")
                        return
                    chk.case(("unit quotient", s1, s2))
                    chk.count("unit quotients within a type")
                    k = SI.scale(s1) / SI.scale(s2)
                    for key, want in (("q12", k), ("q21", 1 / k),
                                      ("q12b", k), ("qq", 3 / k)):
                        r = obs.get(key, {})
                        if r.get("k") == "T" and len(r["items"]) == 2 and \
                                r["items"][1].get("k") == "None":
                            # unit-level operations return (number, unit)
                            r = r["items"][0]
                        if r.get("k") != "N" or val(r) != want or \
                                r.get("at") == "float":
                            chk.violation(
                                "%s with %s, %s: got %s, the reference "
                                "scales give %s" % (key, s1, s2, brief(r),
                                                    want),
                                dict(obs=obs, steps=steps), "pair")
                cases.append(Case(steps, judge))

    # -- products that cancel completely: frequency x duration in every
    # pair of units, both ways round, as quantities and quantity x unit
    for f in SI.units_of("Frequency"):
        for d in SI.units_of("Duration"):
            steps = [{"k": "fd", "e": OP("*", Q(["i", 2], f), Q(["i", 3], d))},
                     {"k": "df", "e": OP("*", Q(["i", 3], d), Q(["i", 2], f))},
                     {"k": "fu", "e": OP("*", Q(["i", 2], f), U(d))}]

            def judge(obs, rec, case, f=f, d=d, steps=steps):
                if not obs:
                    chk.inconclusive_because("cancelling product not "
                                             "observed")
                    return
                chk.case(("cancel", f, d))
                chk.count("products that cancel to a number")
                k = SI.scale(f) * SI.scale(d)
                for key, want in (("fd", 6 * k), ("df", 6 * k),
                                  ("fu", 2 * k)):
                    r = obs.get(key, {})
                    if r.get("k") != "N" or val(r) != want or \
                            r.get("at") == "float":
                        chk.violation(
                            "%s with %s, %s: got %s, the reference scales "
                            "give %s" % (key, f, d, brief(r), want),
                            dict(obs=obs, steps=steps), "compound")
            cases.append(Case(steps, judge))
    chk.require("products that cancel to a number", 20)

    # -- reciprocals of durations are frequencies: number / unit and
    # number / quantity for every duration unit (1 / ms is 1 kHz)
    for d in SI.units_of("Duration"):
        steps = [{"k": "ru", "e": OP("/", ["i", 1], U(d))},
                 {"k": "rq", "e": OP("/", ["i", 2], Q(["i", 4], d))}]

        def judge(obs, rec, case, d=d, steps=steps):
            if not obs:
                chk.inconclusive_because("reciprocal not observed")
                return
            chk.case(("reciprocal", d))
            chk.count("reciprocals of duration units")
            for key, want in (("ru", 1 / SI.scale(d)),
                              ("rq", F(1, 2) / SI.scale(d))):
                r = obs.get(key, {})
                ok = r.get("k") == "Q" and r.get("t") == "Frequency" and \
                    r.get("u") in SI.UNITS and \
                    val(r) * SI.scale(r["u"]) == want
                if not ok:
                    chk.violation("%s with %s: got %s, expected %s Hz" %
                                  (key, d, brief(r), want),
                                  dict(obs=obs, steps=steps), "compound")
        cases.append(Case(steps, judge))
    chk.require("reciprocals of duration units", 5)

    # -- compound units
    compound = dict(SI.COMPOUND)
    compound["N"] = [("kg", 1), ("m/s²", 1)]
    for sym, comps in compound.items():
        e = None
        # repeated multiplication / division, so that every intermediate
        # result has a declared type (m/s2 = (m/s)/s, not m/(s**2))
        for c, ex in sorted(comps, key=lambda ce: -ce[1]):
            one = Q(["i", 1], c)
            for _ in range(abs(ex)):
                if e is None:
                    e = one if ex > 0 else OP("/", ["i", 1], one)
                else:
                    e = OP("*", e, one) if ex > 0 else OP("/", e, one)
        steps = [{"k": "r", "e": M(e, "convert", U(sym))}]

        def judge(obs, rec, case, sym=sym, comps=comps, steps=steps):
            r = (obs or {}).get("r")
            if r is None:
                chk.inconclusive_because("compound not observed")
                return
            chk.case(("compound", sym))
            chk.count("compound units")
            prod = F(1)
            for c, ex in comps:
                prod *= SI.scale(c) ** ex
            bad = []
            if prod != SI.scale(sym):
                bad.append("table inconsistent for %s" % sym)
            if r.get("k") != "Q" or val(r) != 1 or r["u"] != sym:
                bad.append("product of the components of %s is %s, expected "
                           "1 %s" % (sym, brief(r), sym))
            if bad:
                chk.violation("; ".join(bad), dict(obs=obs, steps=steps),
                              "compound")
        cases.append(Case(steps, judge))
    chk.exhaustive["compound units"] = True

    # -- SI prefixes
    for name, exp in SI.SI_PREFIXES.items():
        p = ["g", "quantity.si_prefixes:" + name]
        steps = [{"k": "f", "e": ["a", p, "factor"]},
                 {"k": "m", "e": OP("*", p, U("m"))},
                 {"k": "e", "e": ["a", p, "exp"]}]

        def judge(obs, rec, case, name=name, exp=exp, steps=steps):
            if not obs:
                chk.inconclusive_because("prefix not observed")
                return
            chk.case(("prefix", name))
            chk.count("prefixes")
            want = F(10) ** exp
            f, m = obs.get("f", {}), obs.get("m", {})
            bad = []
            if f.get("k") != "N" or f.get("at") not in EXACT_TYPES + ("int",) \
                    or val(f) != want:
                bad.append("%s.factor = %s, expected 10^%d" %
                           (name, brief(f), exp))
            if m.get("k") != "Q" or val(m) != want or m["u"] != "m":
                bad.append("%s * METRE = %s" % (name, brief(m)))
            if bad:
                chk.violation("; ".join(bad), dict(obs=obs, steps=steps),
                              "prefix")
        cases.append(Case(steps, judge))
    chk.exhaustive["SI prefixes"] = True

    # -- documentation tables
    steps = [{"k": "doc", "e": ["a", ["g", "quantity.predefined"], "__doc__"]}]
    doc_holder = {}

    def judge_doc(obs, rec, case):
        doc_holder["doc"] = (obs or {}).get("doc", {}).get("v")
    cases.append(Case(steps, judge_doc))
    run_cases(chk, R, cases, per_program=150)

    doc = doc_holder.get("doc")
    if not doc:
        chk.inconclusive_because("module documentation not observed")
        return
    rows, temp_rows = parse_doc(doc)
    chk.extra["doc_rows_parsed"] = len(rows)
    cases = []
    for sym, ref, equiv_txt in rows:
        steps = [{"k": "r", "e": M(OP("*", ["i", 1], U(sym)), "convert",
                                   U(ref))}]

        def judge(obs, rec, case, sym=sym, ref=ref, equiv_txt=equiv_txt,
                  steps=steps):
            r = (obs or {}).get("r")
            if r is None:
                chk.inconclusive_because("doc row not observed")
                return
            chk.case(("doc", sym))
            chk.count("doc rows checked")
            try:
                doc_val = F(equiv_txt.replace(",", "."))
            except ValueError:
                chk.count("doc rows with unparsable equivalent")
                return
            if r.get("k") != "Q" or val(r) != doc_val:
                chk.violation(
                    "documentation says 1 %s = %s %s, computed %s" %
                    (sym, equiv_txt, ref, brief(r)),
                    dict(obs=obs, steps=steps), "doc-row")
        cases.append(Case(steps, judge))
    for base_amt, base_u, rel, amt_txt, u in temp_rows:
        steps = [{"k": "r", "e": M(Q(num(base_amt), base_u), "convert",
                                   U(u))}]

        def judge(obs, rec, case, base_amt=base_amt, base_u=base_u, rel=rel,
                  amt_txt=amt_txt, u=u, steps=steps):
            r = (obs or {}).get("r")
            if r is None:
                chk.inconclusive_because("temperature doc row not observed")
                return
            chk.case(("tdoc", base_u, u))
            chk.count("temperature doc equalities")
            txt = amt_txt.replace(",", ".")
            want = F(txt)
            ok = r.get("k") == "Q"
            if ok and rel == "=":
                ok = val(r) == want
            elif ok:
                digits = len(txt.split(".")[1]) if "." in txt else 0
                ok = abs(val(r) - want) <= F(1, 2) / F(10) ** digits
            if not ok:
                chk.violation(
                    "documentation says %s %s %s %s %s, computed %s" %
                    (base_amt, base_u, rel, amt_txt, u, brief(r)),
                    dict(obs=obs, steps=steps), "doc-temperature")
        cases.append(Case(steps, judge))
    run_cases(chk, R, cases, per_program=150)
    chk.exhaustive["documentation table rows"] = True


def parse_doc(doc):
    """-> rows [(symbol, ref symbol, equivalent text)], temperature
    equalities [(base amount, base unit, relation, amount text, unit)]"""
    lines = doc.splitlines()
    rows = []
    temp = []
    i = 0
    while i < len(lines):
        line = lines[i]
        if re.match(r"^=+( =+)+\s*$", line) and i + 2 < len(lines) and \
                lines[i + 1].startswith("Symbol"):
            spans = [(m.start(), m.end()) for m in re.finditer(r"=+", line)]
            header = lines[i + 1]
            last = header[spans[-1][0]:].strip()
            j = i + 3
            body = []
            while j < len(lines) and not lines[j].startswith("==="):
                body.append(lines[j])
                j += 1
            m = re.match(r"Equivalent in '(.+)'", last)
            if m:
                ref = m.group(1)
                for b in body:
                    sym = b[spans[0][0]:spans[0][1]].strip()
                    eq = b[spans[-1][0]:].strip()
                    if sym:
                        rows.append((sym, ref, eq))
            elif last.startswith("Equivalents"):
                for b in body:
                    txt = b[spans[-1][0]:].strip()
                    parts = re.split(r"\s*([=≅])\s*", txt)
                    bm = re.match(r"(-?[\d.,]+)\s+(\S+)", parts[0])
                    if not bm:
                        continue
                    base_amt = F(bm.group(1).replace(",", "."))
                    for k in range(1, len(parts) - 1, 2):
                        pm = re.match(r"(-?[\d.,]+)\s+(\S+)", parts[k + 1])
                        if pm:
                            temp.append((base_amt, bm.group(2), parts[k],
                                         pm.group(1), pm.group(2)))
            i = j
        i += 1
    return rows, temp
