"""C09 -- exchange rates: normal form, accuracy, inversion, triangulation."""
from __future__ import annotations

import random
import re
from fractions import Fraction as F

from ..cases import Case, run_cases, Q, U, V, M, OP
from ..ctl import num, val, is_exc, dec_str
from ..models import rounding as RM
from ..oracle import brief

RULE = ("seeded: currency pairs/triples x unit multiples (powers of ten and "
        "other integers; invalid: fractional, zero, negative) given as int / "
        "Decimal / Fraction / str x term amounts 1e-7..1e6 given as Decimal / "
        "Fraction / float / str (exact powers of ten, 0.0999999.., validity "
        "limits), inversion, all orientations of * and /; non-trivial = valid "
        "input; distinct by (currencies, multiple, amount, kinds, operation)")
ANCHORS = ("ExchangeRate.__init__", "ExchangeRate.inverted",
           "ExchangeRate.__mul__", "ExchangeRate.__truediv__")

XR = ["g", "quantity.money:ExchangeRate"]
MONEY = ["g", "quantity.money:Money"]
CODES = ["EUR", "USD", "GBP", "JPY", "CHF", "HKD"]
HALF = F(1, 2) / 10 ** 6
EPS = F(1, 10 ** 6)

_DEC = re.compile(r"Decimal\('?(-?[\d.]+)'?(?:, (\d+))?\)")


def parse_rate(rec):
    """-> dict(uc, tc, um, ta, rate, inv) from an 'X' record, or None"""
    if rec is None or rec.get("k") != "X":
        return None
    m = _DEC.findall(rec.get("repr", ""))
    if len(m) == 2:
        um, ta = F(m[0][0]), F(m[1][0])
    elif (rec.get("um") or {}).get("k") == "N" and \
            (rec.get("ta") or {}).get("k") == "N":
        # repr in another format: the private attributes, if still there
        um, ta = val(rec["um"]), val(rec["ta"])
    else:
        from ..cases import Unobservable
        raise Unobservable("stored unit multiple and term amount of %s "
                           "(neither its repr nor _unit_multiple / "
                           "_term_amount can be read)" % rec.get("repr"))
    out = dict(uc=rec["uc"], tc=rec["tc"], um=um, ta=ta)
    out["rate"] = val(rec["rate"]) if rec["rate"].get("k") == "N" else None
    out["inv"] = val(rec["inverse_rate"]) \
        if rec["inverse_rate"].get("k") == "N" else None
    out["rate_at"] = rec["rate"].get("at")
    out["quot"] = rec.get("quot")
    return out


def normal_form_problems(x, exact, bound_strict=False):
    """x: parsed rate; exact: the exact rate it should approximate"""
    bad = []
    um, ta = x["um"], x["ta"]
    k = 0
    u = um
    while u > 1 and u % 10 == 0:
        u /= 10
        k += 1
    if u != 1 or um < 1:
        bad.append("unit multiple %s is not a power of ten >= 1" % um)
    if ta <= 0:
        bad.append("term amount %s not positive" % ta)
    if (ta * 10 ** 6).denominator != 1:
        bad.append("term amount %s has more than six fractional digits" % ta)
    if ta < F(1, 10):
        bad.append("term amount %s has magnitude < -1" % ta)
    err = abs(ta - exact * um)
    if err > HALF and not bound_strict:
        bad.append("term amount %s differs from rate x multiple = %s by more "
                   "than half a unit in the sixth decimal" % (ta, exact * um))
    if bound_strict and err >= EPS:
        bad.append("term amount %s differs from rate x multiple = %s by a "
                   "unit in the sixth decimal or more" % (ta, exact * um))
    if x["rate"] != ta / um:
        bad.append("rate %s != term amount / unit multiple" % x["rate"])
    if x["rate"] is None or x["inv"] is None or x["rate"] * x["inv"] != 1:
        bad.append("rate x inverse rate != 1")
    if x["rate_at"] == "float":
        bad.append("rate is a float")
    return bad


def enc(rng, x, kinds):
    x = F(x)
    ok = []
    for k in kinds:
        if k == "int" and x.denominator != 1:
            continue
        if k in ("D", "s") and dec_str(x) is None:
            continue
        if k == "fl":
            f = float(x)
            if F(f) != x:
                continue
        ok.append(k)
    k = rng.choice(ok or ["F"])
    return num(x, k), k


def rand_multiple(rng):
    r = rng.random()
    if r < 0.4:
        return F(rng.choice([1, 10, 100, 1000, 10 ** 6]))
    return F(rng.choice([2, 3, 5, 7, 9, 11, 25, 300, 900, 999, 20, 50, 64,
                         12345]))


def rand_amount(rng):
    r = rng.random()
    if r < 0.2:
        return F(10) ** rng.randint(-6, 6)
    if r < 0.3:
        return rng.choice([F("0.0999999"), F("0.09999995"), F("9.9999995"),
                           F("0.000001"), F("0.0000015"), F("0.9999995"),
                           F("999999.9999995"), F("0.1"), F("0.0999994999")])
    if r < 0.45:
        return F(rng.randint(1, 10 ** 7), rng.choice([3, 7, 9, 11, 13]) *
                 10 ** rng.randint(0, 6))
    e = rng.randint(-6, 6)
    return F(rng.randint(10 ** 6, 10 ** 7 - 1), 10 ** 6) * F(10) ** e


def construct_case(chk, rng, mode=None):
    uc, tc = rng.sample(CODES, 2)
    um = rand_multiple(rng)
    ta = rand_amount(rng)
    invalid = None
    r = rng.random()
    if r < 0.04:
        tc = uc
        invalid = "identical currencies"
    elif r < 0.08:
        um = rng.choice([F(5, 2), F(1, 2), F(101, 100)])
        invalid = "non-integral multiple"
    elif r < 0.12:
        um = rng.choice([F(0), F(-1), F(-100)])
        invalid = "non-positive multiple"
    elif r < 0.16:
        ta = rng.choice([F(0), F(-1, 2), F(-3)])
        invalid = "non-positive amount"
    elif r < 0.20:
        ta = rng.choice([F(1, 10 ** 7), F(9999999, 10 ** 13),
                         F(1, 3 * 10 ** 6)])
        invalid = "too small amount"
    ume, umk = enc(rng, um, ("int", "D", "F", "s"))
    tae, tak = enc(rng, ta, ("D", "F", "fl", "s"))
    cur = lambda c: (rng.choice([["s", c], U(c)]))   # noqa: E731
    call = {"id": "x", "k": "x", "e": ["c", XR, [cur(uc), ume, cur(tc), tae]]}
    steps = [call if mode is None else {"setmode": mode, "body": [call]}]
    if not invalid:
        inv = [{"id": "i1", "k": "inv", "e": M(V("x"), "inverted")},
               # the inverse of the inverse is judged against the inverse's
               # own stored rate, and inverting again must not depend on
               # the earlier call
               {"k": "inv2", "e": M(V("i1"), "inverted")},
               {"k": "invb", "e": M(V("x"), "inverted")}]
        steps.extend(inv if mode is None
                     else [{"setmode": mode, "body": inv}])
    info = dict(uc=uc, um=str(um), tc=tc, ta=str(ta), umk=umk, tak=tak,
                invalid=invalid, mode=mode)

    def judge(obs, rec, case):
        if not obs or "x" not in obs:
            chk.inconclusive_because("construct case not observed")
            return
        x = obs["x"]
        chk.case(("ctor", uc, tc, str(um), str(ta), umk, tak, mode),
                 nontrivial=not invalid)
        if invalid:
            chk.count("rejected|" + invalid)
            if x.get("k") != "E":
                chk.violation("invalid input (%s) accepted: %s" %
                              (invalid, x.get("repr")),
                              dict(info=info, obs=obs, steps=steps),
                              "accepts-invalid")
            return
        chk.count("input|um:" + umk)
        chk.count("input|ta:" + tak)
        if um not in (1, 10, 100, 1000, 10 ** 6):
            chk.count("non-power-of-ten multiple")
        if mode:
            chk.count("directed default mode")
        p = parse_rate(x)
        if p is None:
            chk.violation("valid input rejected or unreadable: %s" % brief(x),
                          dict(info=info, obs=obs, steps=steps),
                          "rejects-valid")
            return
        bad = []
        if p["uc"] != uc or p["tc"] != tc:
            bad.append("currencies %s->%s" % (p["uc"], p["tc"]))
        strict = mode is not None and mode not in RM.HALF_MODES
        bad += normal_form_problems(p, ta / um, bound_strict=strict)
        q = p.get("quot")
        if not isinstance(q, list) or q[0] != uc or q[1] != tc or \
                val(q[2]) != p["rate"]:
            bad.append("quotation inconsistent")
        iq = x.get("iquot")
        if not isinstance(iq, list) or iq[0] != tc or iq[1] != uc or \
                iq[2].get("k") != "N" or val(iq[2]) * p["rate"] != 1:
            bad.append("inverse quotation %s is not (%s, %s, 1 / rate)" %
                       (iq, tc, uc))
        if bad:
            mech = "normal-form" if any("magnitude" in b for b in bad) \
                else "rate-value"
            chk.violation("ExchangeRate(%s, %s, %s, %s): %s" %
                          (uc, um, tc, ta, "; ".join(bad)),
                          dict(info=info, obs=obs, steps=steps), mech)
            return
        chk.sample(dict(info=info, stored=[str(p["um"]), str(p["ta"])]))
        # inversion
        inv = obs.get("inv")
        exact_inv = 1 / p["rate"]
        pi = parse_rate(inv)
        if pi is None:
            if exact_inv * 1 < EPS and is_exc(inv, "ValueError"):
                chk.count("inverse too small (accepted rejection)")
                return
            chk.violation("inverted() failed: %s" % brief(inv),
                          dict(info=info, obs=obs, steps=steps), "inverted")
            return
        chk.count("inverted")
        bad = []
        if pi["uc"] != tc or pi["tc"] != uc:
            bad.append("inverted() does not swap the currencies")
        bad += normal_form_problems(pi, exact_inv, bound_strict=strict)
        qi = pi.get("quot")
        if not isinstance(qi, list) or qi[0] != tc or qi[1] != uc or \
                val(qi[2]) != pi["rate"]:
            bad.append("quotation of the inverted rate is inconsistent: %s"
                       % (qi,))
        pb = parse_rate(obs.get("invb"))
        if pb is None or (pb["uc"], pb["tc"], pb["um"], pb["ta"]) != \
                (pi["uc"], pi["tc"], pi["um"], pi["ta"]):
            bad.append("inverting the same rate a second time gives %s, "
                       "the first time %s" % (brief(obs.get("invb")),
                                              brief(inv)))
        if bad:
            chk.violation("inverted(%s): %s" % (x.get("repr"),
                                                "; ".join(bad)),
                          dict(info=info, obs=obs, steps=steps), "inverted")
            return
        # inverse of the inverse: reciprocal of the inverse's stored rate
        inv2 = obs.get("inv2")
        exact2 = 1 / pi["rate"]
        p2 = parse_rate(inv2)
        if p2 is None:
            if exact2 < EPS and is_exc(inv2, "ValueError"):
                chk.count("inverse too small (accepted rejection)")
                return
            chk.violation("inverted().inverted() failed: %s" % brief(inv2),
                          dict(info=info, obs=obs, steps=steps), "inverted")
            return
        chk.count("inverse of an inverse")
        if p2["ta"] != p["ta"] or p2["um"] != p["um"]:
            chk.count("inverse of an inverse differs from the original")
        bad = []
        if p2["uc"] != uc or p2["tc"] != tc:
            bad.append("currencies %s->%s" % (p2["uc"], p2["tc"]))
        bad += normal_form_problems(p2, exact2, bound_strict=strict)
        if bad:
            chk.violation("%s.inverted() of an inverted rate: %s" %
                          (inv.get("repr"), "; ".join(bad)),
                          dict(info=info, obs=obs, steps=steps), "inverted")
    return Case(steps, judge, info)


def tri_case(chk, rng):
    a, b, c, d = rng.sample(CODES, 4)
    orient = rng.choice(["mul-ab-bc", "mul-bc-ab", "div-ab-ac", "div-ac-bc",
                         "noshare-mul", "noshare-div", "self-inverse",
                         "wrongshare-mul-units", "wrongshare-mul-terms",
                         "wrongshare-div-chain"])
    if orient == "mul-ab-bc":
        p1, p2, op, want = (a, b), (b, c), "*", (a, c)
    elif orient == "mul-bc-ab":
        p1, p2, op, want = (b, c), (a, b), "*", (a, c)
    elif orient == "div-ab-ac":          # same unit currency
        p1, p2, op, want = (a, b), (a, c), "/", (c, b)
    elif orient == "div-ac-bc":          # same term currency
        p1, p2, op, want = (a, c), (b, c), "/", (a, b)
    elif orient == "wrongshare-mul-units":
        # a currency is shared, but not the way the operation needs it
        p1, p2, op, want = (a, b), (a, c), "*", None
    elif orient == "wrongshare-mul-terms":
        p1, p2, op, want = (a, c), (b, c), "*", None
    elif orient == "wrongshare-div-chain":
        p1, p2, op, want = (a, b), (b, c), "/", None
    elif orient == "noshare-mul":
        p1, p2, op, want = (a, b), (c, d), "*", None
    elif orient == "noshare-div":
        p1, p2, op, want = (a, b), (c, d), "/", None
    else:
        p1, p2, op, want = (a, b), (b, a), "*", "either"
    um1, um2 = rand_multiple(rng), rand_multiple(rng)
    ta1, ta2 = rand_amount(rng), rand_amount(rng)
    if ta1 < EPS:
        ta1 = EPS
    if ta2 < EPS:
        ta2 = EPS
    steps = [{"id": "r1", "k": "r1", "e": ["c", XR, [U(p1[0]), num(um1),
                                                     U(p1[1]), num(ta1)]]},
             {"id": "r2", "k": "r2", "e": ["c", XR, [U(p2[0]), num(um2),
                                                     U(p2[1]), num(ta2)]]},
             {"k": "r", "e": OP(op, V("r1"), V("r2"))}]
    info = dict(orient=orient, p1=p1, p2=p2, um1=str(um1), ta1=str(ta1),
                um2=str(um2), ta2=str(ta2))

    def judge(obs, rec, case):
        if not obs or "r" not in obs:
            chk.inconclusive_because("triangulation case not observed")
            return
        x1, x2 = parse_rate(obs.get("r1")), parse_rate(obs.get("r2"))
        if x1 is None or x2 is None:
            chk.count("triangulation operands not constructed")
            return
        chk.case(("tri", orient, p1, p2, str(um1), str(ta1), str(um2),
                  str(ta2)))
        chk.count("triangulation|" + orient)
        r = obs["r"]
        if want is None:
            if not is_exc(r, "ValueError"):
                chk.violation("rates without shared currency combined: %s" %
                              brief(r), dict(info=info, obs=obs, steps=steps),
                              "no-shared-currency")
            return
        if want == "either":
            if r.get("k") == "E":
                return
            p = parse_rate(r)
            if p is None or p["uc"] == p["tc"]:
                chk.violation("r * inverse: %s" % brief(r),
                              dict(info=info, obs=obs, steps=steps),
                              "self-inverse")
            return
        exact = x1["rate"] * x2["rate"] if op == "*" else \
            x1["rate"] / x2["rate"]
        p = parse_rate(r)
        if p is None:
            if exact < EPS and is_exc(r, "ValueError"):
                chk.count("result too small (accepted rejection)")
                return
            chk.violation("%s of rates failed: %s" % (op, brief(r)),
                          dict(info=info, obs=obs, steps=steps),
                          "triangulation")
            return
        bad = []
        if (p["uc"], p["tc"]) != want:
            bad.append("direction %s->%s, documented %s->%s" %
                       (p["uc"], p["tc"], want[0], want[1]))
        bad += normal_form_problems(p, exact)
        if bad:
            chk.violation("(%s) %s (%s): %s" % (obs["r1"].get("repr"), op,
                                                obs["r2"].get("repr"),
                                                "; ".join(bad)),
                          dict(info=info, obs=obs, steps=steps),
                          "triangulation")
    return Case(steps, judge, info)


def run(chk, R, tier, seed):
    rng = random.Random("C09-%d" % seed)
    for c in ("non-power-of-ten multiple", "input|um:int", "input|um:D",
              "input|um:F", "input|um:s", "input|ta:D", "input|ta:F",
              "input|ta:fl", "input|ta:s", "inverted", "inverse of an inverse",
              "inverse of an inverse differs from the original",
              "triangulation|mul-ab-bc", "triangulation|mul-bc-ab",
              "triangulation|div-ab-ac", "triangulation|div-ac-bc",
              "triangulation|noshare-mul", "triangulation|noshare-div",
              "rejected|identical currencies",
              "rejected|non-integral multiple",
              "rejected|non-positive multiple",
              "rejected|non-positive amount", "rejected|too small amount",
              "directed default mode"):
        chk.require(c)
    prelude = [{"e": M(MONEY, "register_currency", ["s", c])} for c in CODES]
    n = 15000 if tier == "quick" else 150000
    done = 0
    while done < n:
        m = min(n - done, 30000)
        cases = []
        for i in range(m):
            r = rng.random()
            if r < 0.6:
                cases.append(construct_case(chk, rng))
            elif r < 0.7:
                cases.append(construct_case(chk, rng,
                                            mode=rng.choice(RM.MODES)))
            else:
                cases.append(tri_case(chk, rng))
        run_cases(chk, R, cases, per_program=150, prelude=prelude)
        done += m
