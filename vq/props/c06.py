"""C06 -- allocation conserves the total, deviates by less than one quantum."""
from __future__ import annotations

import random
from fractions import Fraction as F

from ..cases import Case, run_cases, world_program, Q, U, V, M, OP
from ..ctl import num, val, is_exc, EXACT_TYPES
from ..gen import random_plan, rand_fraction, enc_amount
from ..models import si_table as SI
from ..models import rounding as RM
from ..models.world import predefined_world
from ..oracle import brief, check_ctor_events
from ..ops import derived
from .c05 import tie_amount

RULE = ("quantities of quantized (DataVolume, Money, synthetic) and "
        "non-quantized types x ratio lists of length 1..12 (ints, fractions, "
        "decimals, or quantities of one other type in mixed units) x disperse "
        "flag x 8 default rounding modes; amounts negative, zero, one "
        "quantum, huge; non-trivial = at least two portions and a non-zero "
        "total; distinct by (world, quantity, ratios, flag, mode)")
ANCHORS = ("Quantity.allocate", "sum")


def alloc_sub(chk, rng, w, wid, mode, plan=None, unit=None):
    units = [s for s in w.units
             if w.types[w.units[s].tname].has_ref or
             w.quantum_of(s) is not None]
    quantized_units = [s for s in units if w.quantum_of(s) is not None]
    if unit is not None:
        u = unit
    elif quantized_units and rng.random() < 0.65:
        u = rng.choice(quantized_units)
    else:
        u = rng.choice(units)
    q = w.quantum_of(u)
    r = rng.random()
    if unit is not None and r < 0.5:
        # whole numbers of a unit whose grid they are not on
        x = F(rng.randint(1, 40))
    elif q is not None and r < 0.2:
        x = rng.choice([1, -1, 2, 3, 7]) * q
    elif q is not None and r < 0.5:
        x = tie_amount(rng, q)
    elif r < 0.6:
        x = F(0)
    elif r < 0.7:
        x = F(rng.randint(1, 10 ** 30), rng.choice([1, 8, 1000]))
    else:
        x = rand_fraction(rng, small=True)
    n = rng.choice([1, 2, 2, 3, 3, 4, 5, 7, 12])
    rkind = rng.choice(["int", "frac", "dec", "mixed", "qty"])
    ratios = []
    rvals = []
    if rkind == "qty":
        # quantities of another type, or (one time in three) of the
        # quantity's own type
        own = w.units[u].tname
        lin = [t for t in w.types.values() if t.has_ref and t.name != own]
        if w.types[own].has_ref and (not lin or rng.random() < 0.33):
            lin = [w.types[own]]
        if not lin:
            rkind = "int"
        else:
            t = rng.choice(lin)
            us = [uu.sym for uu in w.units_of(t.name)]
            for _ in range(n):
                su = rng.choice(us)
                rx = rand_fraction(rng, small=True, allow_zero=False,
                                   positive=True)
                qq = w.quantum_of(su)
                if qq is not None:
                    rx = max(RM.round_to(rx, qq, "ROUND_CEILING"), qq)
                ratios.append(Q(enc_amount(rng, rx, ("D", "F"))[0], su))
                rvals.append(rx * w.units[su].factor)
    if rkind != "qty":
        for _ in range(n):
            kind = rkind if rkind != "mixed" else rng.choice(
                ["int", "frac", "dec"])
            if kind == "int":
                rx = F(rng.choice([1, 1, 2, 3, 5, 38, 15, 100, 999]))
                ratios.append(num(rx, "int"))
            elif kind == "frac":
                rx = F(rng.randint(1, 40), rng.choice([3, 7, 6, 9, 11]))
                ratios.append(num(rx, "F"))
            else:
                rx = F(rng.randint(1, 9999), 10 ** rng.randint(0, 4))
                ratios.append(num(rx, "D"))
            rvals.append(rx)
    disperse = rng.random() < 0.5
    kw = {}
    # any sized collection will do
    args = [[rng.choice(["l", "l", "t"]), ratios]]
    if not disperse:
        kw["disperse_rounding_error"] = ["b", False]
    elif rng.random() < 0.5:
        kw["disperse_rounding_error"] = ["b", True]
    body = [{"id": "q", "k": "q", "e": derived(rng, Q(enc_amount(
        rng, x, ("D", "F"))[0], u), u)},
            {"k": "r", "e": ["m", V("q"), "allocate", args, kw]},
            {"k": "after", "e": V("q")},
            {"k": "again", "e": ["m", V("q"), "allocate", args, kw]}]
    # what the portions are worth elsewhere: each converted to another unit
    # of the type, and their sum (the portions are adjusted after they were
    # built; nothing derived from an amount before may be used afterwards)
    tname_ = w.units[u].tname
    others_ = [uu.sym for uu in w.units_of(tname_)
               if uu.sym != u and w.types[tname_].has_ref]
    v_other = rng.choice(others_) if others_ else None
    if v_other is not None:
        body.append({"id": "al2", "e": ["m", V("q"), "allocate", args, kw]})
        body.append({"k": "pconv", "e": ["l", [
            ["m", ["idx", ["idx", V("al2"), 0], i_], "convert",
             [U(v_other)], {}] for i_ in range(n)]]})
        body.append({"k": "psrc", "e": ["idx", V("al2"), 0]})
        body.append({"k": "psum", "e": ["sum", ["idx", V("al2"), 0]]})
    steps = [{"setmode": mode, "body": body}]
    info = dict(world=wid, unit=u, x=str(x), ratios=[str(v) for v in rvals],
                rkind=rkind, disperse=disperse, mode=mode)

    def judge(obs):
        if not obs or "q" not in obs:
            chk.inconclusive_because("allocation case not observed")
            return
        qo, r, after = obs["q"], obs.get("r", {}), obs.get("after", {})
        wit = dict(info=info, obs=obs, steps=steps)
        if plan is not None:
            wit["declarations"] = plan
        if qo.get("k") != "Q":
            chk.violation("constructing the quantity failed: %s" % brief(qo),
                          wit, "construct")
            return
        xs = val(qo)
        chk.case((wid, u, str(xs), tuple(info["ratios"]), disperse, mode),
                 nontrivial=(n > 1 and xs != 0))
        chk.count("ratios|" + rkind)
        chk.count("disperse" if disperse else "no-disperse")
        if r.get("k") != "T" or len(r["items"]) != 2 or \
                r["items"][0].get("k") != "T":
            chk.violation("allocate(%s) failed: %s" % (rkind, brief(r)), wit,
                          "allocate-raises")
            return
        portions, rem = r["items"][0]["items"], r["items"][1]
        bad = []
        pc, psrc = obs.get("pconv"), obs.get("psrc")
        if v_other is not None and pc is not None and psrc is not None:
            if pc.get("k") != "T" or psrc.get("k") != "T":
                bad.append("converting the portions to %s failed: %s" %
                           (v_other, brief(pc)))
            else:
                chk.count("portions converted to another unit")
                fu, fv = w.units[u].factor, w.units[v_other].factor
                for a_, b_ in zip(psrc["items"], pc["items"]):
                    if b_.get("k") != "Q" or b_["u"] != v_other or \
                            val(b_) * fv != val(a_) * fu:
                        bad.append("portion %s converts to %s" %
                                   (brief(a_), brief(b_)))
                        break
                ps_ = obs.get("psum", {})
                tot_ = sum(val(a_) for a_ in psrc["items"])
                if ps_.get("k") != "Q" or val(ps_) != tot_ or \
                        ps_["u"] != u:
                    bad.append("the sum of the portions is %s, their "
                               "amounts add up to %s %s" % (brief(ps_), tot_,
                                                            u))
        if len(portions) != n:
            bad.append("%d portions for %d ratios" % (len(portions), n))
        for p in portions + [rem]:
            if p.get("k") != "Q" or p["u"] != qo["u"] or p["t"] != qo["t"] \
                    or p.get("uid") != qo.get("uid"):
                bad.append("portion/remainder %s not in the quantity's own "
                           "type and unit" % brief(p))
            elif p["at"] not in EXACT_TYPES:
                bad.append("amount held as %s" % p["at"])
        if bad:
            chk.violation("; ".join(bad[:3]), wit, "allocate-shape")
            return
        if after.get("k") != "Q" or val(after) != xs or after["u"] != qo["u"]:
            bad.append("the original changed: %s -> %s" %
                       (brief(qo), brief(after)))
        again = obs.get("again", {})
        if again.get("k") == "T" and again["items"][0].get("k") == "T":
            chk.count("allocation repeated on the same object")
            a1 = [(p["a"], p["u"]) for p in portions] + [rem["a"]]
            a2 = [(p.get("a"), p.get("u"))
                  for p in again["items"][0]["items"]] + \
                [again["items"][1].get("a")]
            if a1 != a2:
                bad.append("a second allocate() on the same quantity gives "
                           "another result")
        else:
            bad.append("second allocate() failed: %s" % brief(again))
        total = sum((val(p) for p in portions), F(0)) + val(rem)
        if total != xs:
            bad.append("portions + remainder = %s, original %s" % (total, xs))
        tot_r = sum(rvals, F(0))
        shares = [xs * rv / tot_r for rv in rvals]
        if q is None:
            chk.count("non-quantized")
            for p, sh in zip(portions, shares):
                if val(p) != sh:
                    bad.append("portion %s is not the exact share %s" %
                               (val(p), sh))
                    break
                if p["at"] == "Fraction":
                    chk.count("non-quantized with Fraction shares")
            if val(rem) != 0:
                bad.append("remainder %s without a quantum" % val(rem))
        else:
            chk.count("quantized")
            moved = 0
            for p, sh in zip(portions, shares):
                if (val(p) / q).denominator != 1:
                    bad.append("portion %s off the grid (quantum %s)" %
                               (val(p), q))
                if abs(val(p) - sh) >= q:
                    bad.append("portion %s is a quantum or more away from "
                               "its share %s" % (val(p), sh))
                if val(p) != RM.round_to(sh, q, mode):
                    moved += 1
            if disperse:
                if val(rem) != 0:
                    bad.append("dispersed, but remainder %s" % val(rem))
                if moved >= 2:
                    chk.count("dispersals that moved >= 2 quanta")
                if moved >= 1:
                    chk.count("dispersals")
            else:
                lim = n * q
                if mode in RM.HALF_MODES:
                    lim = n * q / 2
                    if abs(val(rem)) > lim:
                        bad.append("remainder %s exceeds n x quantum/2" %
                                   val(rem))
                elif abs(val(rem)) >= lim:
                    bad.append("remainder %s not smaller than n x quantum" %
                               val(rem))
                if (val(rem) / q).denominator != 1:
                    bad.append("remainder off the grid")
                if val(rem) < 0:
                    chk.count("negative remainders")
                if val(rem) != 0:
                    chk.count("non-zero remainders")
        if bad:
            chk.violation("allocate %s %s by %s (%s, disperse=%s): %s" %
                          (xs, u, info["ratios"], mode, disperse,
                           "; ".join(bad[:3])), wit, "allocation")
        else:
            chk.sample(dict(info=info, portions=[str(val(p))
                                                 for p in portions],
                            remainder=str(val(rem))))
    return steps, judge


def run(chk, R, tier, seed):
    rng = random.Random("C06-%d" % seed)
    for c in ("dispersals that moved >= 2 quanta", "negative remainders",
              "ratios|qty", "ratios|int", "ratios|frac", "ratios|dec",
              "ratios|mixed", "non-quantized with Fraction shares",
              "quantized", "non-quantized", "worlds", "disperse",
              "no-disperse"):
        chk.require(c)
    w = predefined_world({"EUR": 2, "JPY": 0, "BHD": 3, "XNK": F(1, 20)})
    from ..cases import currency_steps
    prelude = currency_steps({"EUR": 2, "JPY": 0, "BHD": 3,
                              "XNK": F(1, 20)})
    wrap = lambda jd: (lambda obs, rec, case: jd(obs))      # noqa: E731

    def on_program(rec, cs):
        check_ctor_events(chk, w, rec, "predefined")
    n = 8000 if tier == "quick" else 80000
    done = 0
    while done < n:
        m = min(n - done, 20000)
        cases = []
        for i in range(m):
            st, jd = alloc_sub(chk, rng, w, "predefined", RM.MODES[i % 8])
            cases.append(Case(st, wrap(jd)))
        run_cases(chk, R, cases, per_program=60, prelude=prelude,
                  on_program=on_program)
        done += m
    nw = 80 if tier == "quick" else 1000
    cases = []
    for wi in range(nw):
        plan, ww = random_plan(rng, noref=False, force_quantum=True)
        planj = [d.to_json() for d in plan]
        wid = "world%d" % wi
        subs = [alloc_sub(chk, rng, ww, wid, RM.MODES[(wi + j) % 8], planj)
                for j in range(16)]
        cases.append(world_program(chk, plan, subs, wid))
    run_cases(chk, R, cases, preload=("quantity",))
    # units declared LATE in a quantized type that has been in use for a
    # while (quantities of DataVolume exist since the import): the grid of
    # the new unit is its own -- whole numbers of it are mostly off it
    from ..gen import Decl
    cases = []
    for li in range(30 if tier == "quick" else 300):
        wl = predefined_world({})
        k = rng.choice([F(1, 10), F(3), F(3, 10), F(7), F(1, 3), F(12)])
        par = rng.choice(["B", "kB", "b"])
        sym = "late%d" % li
        d = Decl("term", t="DataVolume", sym=sym, kkind=None,
                 items=[(("n", k), 1), (("u", par), 1)])
        d.apply(wl)
        wid = "late%d" % li
        subs = [alloc_sub(chk, rng, wl, wid, RM.MODES[(li + j) % 8],
                          [d.to_json()], unit=sym) for j in range(6)]
        pre = [{"id": "DataVolume",
                "e": ["g", "quantity.predefined:DataVolume"]}]

        def on_ok():
            chk.count("allocations in a unit declared late in a quantized "
                      "type", 6)
        cases.append(world_program(chk, [d], subs, wid, on_ok=on_ok,
                                   extra_pre=pre))
    chk.require("allocations in a unit declared late in a quantized type")
    run_cases(chk, R, cases)
