"""C14 -- table (affine) converters are exact, invertible, consistent."""
from __future__ import annotations

import random
from fractions import Fraction as F

from ..cases import Case, run_cases, world_program, Q, U, V, M, OP
from ..ctl import num, val, is_exc, EXACT_TYPES
from ..gen import rand_fraction, enc_amount, Decl, NAMES
from ..models.world import World
from ..oracle import brief

RULE = ("all 9 ordered pairs / 27 triples of temperature units x rational "
        "amounts (incl. the defining fixed points); synthetic types without "
        "reference unit whose TableConverter rows are generated from a "
        "consistent affine model (mapping or list form, random rows removed, "
        "one or both directions); non-trivial = source and target differ; "
        "distinct by (world, amount, units)")
ANCHORS = ("TableConverter._get_factor", "TableConverter.__init__",
           "Converter.__call__", "Quantity.equiv_amount")

# x_K = a * x + b
TEMP = {"K": (F(1), F(0)), "°C": (F(1), F(27315, 100)),
        "°F": (F(5, 9), F(45967, 100) * F(5, 9))}
FIXED = [("°C", F(0), "K", F(27315, 100)), ("°C", F(0), "°F", F(32)),
         ("°C", F(-40), "°F", F(-40)), ("K", F(0), "°F", F(-45967, 100)),
         ("°F", F(32), "K", F(27315, 100)), ("K", F(0), "°C", F(-27315, 100)),
         ("°C", F(100), "°F", F(212)), ("°F", F(-40), "°C", F(-40))]
OPS = ["==", "!=", "<", "<=", ">", ">="]
PY = {"==": lambda a, b: a == b, "!=": lambda a, b: a != b,
      "<": lambda a, b: a < b, "<=": lambda a, b: a <= b,
      ">": lambda a, b: a > b, ">=": lambda a, b: a >= b}


def conv_model(aff, rows, u, v, x):
    """expected amount of x u in v; None if no applicable row.  rows may be
    a set of tabulated pairs (consistent with the affine model aff) or a
    dict {(u, v): (factor, offset)} with the literal rows."""
    if u == v:
        return x
    if isinstance(rows, dict):
        if (u, v) in rows:
            f, o = rows[(u, v)]
            return x * f + o
        if (v, u) in rows:
            f, o = rows[(v, u)]
            return (x - o) / f
        return None
    au, bu = aff[u]
    av, bv = aff[v]
    if (u, v) in rows or (v, u) in rows:
        return (au * x + bu - bv) / av
    return None


def affine_sub(chk, rng, aff, rows, wid, tname, fixed=None, extra=None,
               consistent=True, scaled=()):
    units = list(aff)
    if fixed:
        u, x, v, want_fixed = fixed
    elif scaled and rng.random() < 0.35:
        # a unit declared as a multiple of another unit of this type: no
        # table row names it, so nothing converts to or from it (a scale
        # alone is no conversion in a type without reference unit)
        u = rng.choice(list(scaled))
        v = rng.choice(units + list(scaled))
        if rng.random() < 0.5:
            u, v = v, u
        x = rand_fraction(rng, small=True)
        want_fixed = None
    else:
        u, v = rng.choice(units), rng.choice(units)
        x = rand_fraction(rng, small=rng.random() < 0.7)
        want_fixed = None
        if rng.random() < 0.12:
            # the amount whose image in v is exactly zero (a zero result is
            # a result, not "no converter applies")
            c0 = conv_model(aff, rows, u, v, F(0))
            c1 = conv_model(aff, rows, u, v, F(1))
            if c0 is not None and c1 != c0:
                x = -c0 / (c1 - c0)
    t = rng.choice(units)
    y = rand_fraction(rng, small=True)
    e, kind = enc_amount(rng, x, ("D", "F", "int"))
    steps = [{"id": "q", "k": "q", "e": Q(e, u)},
             {"id": "r", "k": "r", "e": M(V("q"), "convert", U(v))},
             {"k": "back", "e": M(V("r"), "convert", U(u))},
             {"k": "via", "e": M(M(V("q"), "convert", U(t)), "convert",
                                 U(v))},
             {"id": "o", "k": "o", "e": Q(num(y), v)}]
    for op in OPS:
        steps.append({"k": op, "e": OP(op, V("q"), V("o"))})
    steps.append({"k": "eqr", "e": OP("==", V("q"), V("r"))})
    steps.append({"k": "add", "e": OP("+", V("q"), V("o"))})
    steps.append({"k": "sub", "e": OP("-", V("q"), V("o"))})
    # the amount-and-symbol string with the other unit given: the same
    # conversion, or the same refusal
    steps.append({"k": "ps", "e": ["c", ["a", U(u), "qty_cls"],
                                   [["un", "str", V("q")], U(v)]]})
    # the other spellings of "what is q in v": the bare equivalent amount
    # (None without a row, no exception), quantity / unit, and the quotient
    # of the two quantities
    steps.append({"k": "ea", "e": M(V("q"), "equiv_amount", U(v))})
    steps.append({"k": "qdu", "e": OP("/", V("q"), U(v))})
    steps.append({"k": "qdq", "e": OP("/", V("q"), V("o"))})
    info = dict(world=wid, u=u, v=v, t=t, x=str(x), y=str(y))
    if extra:
        info.update(extra)

    def judge(obs):
        if not obs or "q" not in obs:
            chk.inconclusive_because("affine case not observed")
            return
        q = obs["q"]
        wit = dict(info=info, obs=obs, steps=steps)
        if q.get("k") != "Q":
            chk.violation("construction failed: %s" % brief(q), wit,
                          "construct")
            return
        xs = val(q)
        chk.case((wid, u, v, t, str(xs), str(y)), nontrivial=u != v)
        want = conv_model(aff, rows, u, v, xs)
        r = obs.get("r", {})
        bad = []
        if want is None:
            chk.count("missing pairs")
            if u in scaled or v in scaled:
                chk.count("pairs with a scaled unit no row names")
            if not is_exc(r, "UnitConversionError"):
                bad.append("no applicable row: expected UnitConversionError, "
                           "got %s" % brief(r))
            if not is_exc(obs.get("ps"), "UnitConversionError"):
                bad.append("no applicable row: parsing '%s %s' with unit %s "
                           "gives %s" % (xs, u, v, brief(obs.get("ps"))))
            if obs.get("ea", {}).get("k") != "None":
                bad.append("no applicable row: equiv_amount gives %s" %
                           brief(obs.get("ea")))
            for key in ("qdu", "qdq"):
                if not is_exc(obs.get(key), "UnitConversionError"):
                    bad.append("no applicable row: %s gives %s" %
                               (key, brief(obs.get(key))))
            for op in OPS:
                c = obs.get(op, {})
                if op == "==":
                    ok = c.get("v") is False
                elif op == "!=":
                    ok = c.get("v") is True
                else:
                    ok = is_exc(c, "UnitConversionError")
                if not ok:
                    bad.append("%s without applicable row gives %s" %
                               (op, brief(c)))
        else:
            if u != v and (u, v) not in rows:
                chk.count("reverse-lookup conversions")
            elif u != v:
                chk.count("forward conversions")
            if r.get("k") != "Q" or r["u"] != v or r["t"] != tname:
                bad.append("convert gives %s" % brief(r))
            else:
                if val(r) != want:
                    bad.append("convert gives %s %s, amount x factor + "
                               "offset is %s" % (val(r), v, want))
                if r["at"] not in EXACT_TYPES:
                    bad.append("amount held as %s" % r["at"])
                if want == 0 and u != v:
                    chk.count("conversions whose result is zero")
                ea, qdu = obs.get("ea", {}), obs.get("qdu", {})
                if ea.get("k") != "N" or val(ea) != want or \
                        ea.get("at") == "float":
                    bad.append("equiv_amount gives %s, expected %s" %
                               (brief(ea), want))
                if u != v and (qdu.get("k") != "N" or val(qdu) != want):
                    bad.append("quantity / unit gives %s, expected %s" %
                               (brief(qdu), want))
                chk.count("equivalent amounts and quotients by a unit")
                ps = obs.get("ps", {})
                if ps.get("k") != "Q" or ps["u"] != v or val(ps) != want:
                    bad.append("parsing '%s %s' with unit %s gives %s, the "
                               "conversion %s %s" % (xs, u, v, brief(ps),
                                                     want, v))
                if want_fixed is not None:
                    chk.count("fixed points")
                    if val(r) != want_fixed:
                        bad.append("fixed point: %s %s must be %s %s, got %s"
                                   % (xs, u, want_fixed, v, val(r)))
                b = obs.get("back", {})
                if consistent and (b.get("k") != "Q" or val(b) != xs or
                                   b["u"] != u):
                    bad.append("converting back gives %s" % brief(b))
                if consistent and obs.get("eqr", {}).get("v") is not True:
                    bad.append("converted quantity != original")
                if not consistent:
                    chk.count("conversions with both directions tabulated "
                              "inconsistently (forward row must win)")
            if consistent and conv_model(aff, rows, u, t, xs) is not None \
                    and conv_model(aff, rows, t, v, F(0)) is not None:
                via = obs.get("via", {})
                chk.count("triples")
                if via.get("k") != "Q" or val(via) != want or via["u"] != v:
                    bad.append("via %s gives %s, direct %s" %
                               (t, brief(via), want))
            # comparisons against o (y v): compare in reference terms
            av, bv = aff[v]
            au, bu = aff[u]
            lhs, rhs = au * xs + bu, av * y + bv
            o = obs.get("o", {})
            if o.get("k") == "Q":
                # a sum / difference converts the right operand into the
                # left operand's unit
                oc = conv_model(aff, rows, v, u, val(o))
                for key, sgn in (("add", 1), ("sub", -1)):
                    rr = obs.get(key, {})
                    if oc is None:
                        if not is_exc(rr, "UnitConversionError"):
                            bad.append("%s without applicable row gives %s" %
                                       (key, brief(rr)))
                    elif rr.get("k") != "Q" or rr["u"] != u or \
                            val(rr) != xs + sgn * oc:
                        bad.append("%s %s %s %s %s gives %s, expected %s %s"
                                   % (xs, u, "+" if sgn > 0 else "-",
                                      val(o), v, brief(rr), xs + sgn * oc, u))
                chk.count("sums and differences across units")
            if o.get("k") == "Q" and consistent:
                rhs = av * val(o) + bv
                for op in OPS:
                    c = obs.get(op, {})
                    wantb = PY[op](lhs, rhs)
                    if c.get("k") != "bool" or c["v"] is not wantb:
                        bad.append("%s %s %s %s %s is %s, the conversions "
                                   "say %s" % (xs, u, op, val(o), v,
                                               brief(c), wantb))
                chk.count("comparisons across units")
        if bad:
            chk.violation("; ".join(bad[:3]), wit, "affine")
        else:
            chk.sample(dict(info=info, got=brief(r)))
    return steps, judge


def synthetic_world(chk, rng, wi):
    w = World()
    names = NAMES[:]
    rng.shuffle(names)
    tname = names[0]
    plan = [Decl("base", name=tname)]
    nu = rng.randint(2, 4)
    units = ["t%d" % i for i in range(nu)]
    for s in units:
        plan.append(Decl("plain", t=tname, sym=s))
    scaled = []
    if rng.random() < 0.5:
        for j in range(rng.randint(1, 2)):
            sym = "k%d" % j
            plan.append(Decl("scaled", t=tname, sym=sym,
                             k=rng.choice([F(1, 1000), F(1000), F(3)]),
                             parent=rng.choice(units + scaled)))
            scaled.append(sym)
    for d in plan:
        d.apply(w)
    aff = {units[0]: (F(1), F(0))}
    for s in units[1:]:
        a = rng.choice([F(1), F(5, 9), F(9, 5), F(2), F(1, 3), F(7, 10),
                        F(100), F(3), F(1, 7), F(12)])
        b = rng.choice([F(0), F(27315, 100), F(32), F(-40), F(1, 7),
                        F(-1234, 10)])
        aff[s] = (a, b)
    rows = {}
    for u in units:
        for v in units:
            if u == v:
                continue
            au, bu = aff[u]
            av, bv = aff[v]
            rows[(u, v)] = (au / av, (bu - bv) / av)
    # remove rows: per unordered pair keep both / one / none
    for i, u in enumerate(units):
        for v in units[i + 1:]:
            r = rng.random()
            if r < 0.35:
                del rows[(u, v)]
            elif r < 0.6:
                del rows[(v, u)]
            elif r < 0.72:
                del rows[(u, v)]
                del rows[(v, u)]
    for s_ in scaled:
        aff[s_] = (F(1), F(0))      # only ever used for s_ against itself
    consistent = rng.random() < 0.75
    if not consistent:
        # a user table whose two directions disagree: each tabulated
        # direction must be applied as written
        for key in list(rows):
            if (key[1], key[0]) in rows and rng.random() < 0.7:
                f, o = rows[key]
                rows[key] = (f * rng.choice([2, F(1, 2), 1]),
                             o + rng.choice([0, 1, -3]))
    form = rng.choice(["mapping", "list"])

    def enc(x):
        # every rational kind, incl. plain ints
        if x.denominator == 1 and rng.random() < 0.6:
            return num(x, "int")
        from ..ctl import dec_str
        if dec_str(x) is not None and rng.random() < 0.6:
            return num(x, "D")
        return num(x, "F")
    def mk_table(part):
        if form == "mapping":
            return ["dict", [[["t", [U(u), U(v)]], ["t", [enc(f), enc(o)]]]
                             for (u, v), (f, o) in part.items()]]
        return ["l", [["t", [U(u), U(v), enc(f), enc(o)]]
                      for (u, v), (f, o) in part.items()]]
    # the rows in one table, or split by unit pair over two converters that
    # are registered one after the other: a pair that only the older one
    # tabulates must still convert (the newer one answers None for it)
    parts = [rows]
    pairs = sorted({tuple(sorted(k)) for k in rows})
    if len(pairs) >= 2 and rng.random() < 0.4:
        rng.shuffle(pairs)
        cut = rng.randint(1, len(pairs) - 1)
        newer = set(pairs[cut:])
        parts = [{k: r for k, r in rows.items()
                  if tuple(sorted(k)) not in newer},
                 {k: r for k, r in rows.items()
                  if tuple(sorted(k)) in newer}]
    wid = "world%d" % wi
    pre_steps = []
    for pi, part in enumerate(parts):
        pre_steps += [{"id": "conv%d" % pi,
                       "e": ["c", ["g", "quantity:TableConverter"],
                             [mk_table(part)]]},
                      {"k": "reg%d" % pi,
                       "e": M(V(tname), "register_converter",
                              V("conv%d" % pi))}]

    # a converter that is built but never registered (or registered and
    # removed again), tabulating exactly the pairs the registered ones lack:
    # its rows must not apply
    missing = [(u, v) for i, u in enumerate(units) for v in units[i + 1:]
               if (u, v) not in rows and (v, u) not in rows]
    ghost = None
    if missing and rng.random() < 0.6:
        ghost = rng.choice(["never-registered", "removed"])
        gpart = {k: (F(7), F(1)) for k in missing}
        pre_steps.append({"id": "ghost",
                          "e": ["c", ["g", "quantity:TableConverter"],
                                [mk_table(gpart)]]})
        if ghost == "removed":
            pre_steps.append({"k": "greg",
                              "e": M(V(tname), "register_converter",
                                     V("ghost"))})
            pre_steps.append({"k": "grem",
                              "e": M(V(tname), "remove_converter",
                                     V("ghost"))})

    def pre_judge(obs):
        if ghost:
            chk.count("unregistered converter tabulating the missing pairs|"
                      + ghost)
        chk.count("table form|" + form)
        chk.count("tables registered on the type|%d" % len(parts))
    pre_sub = (pre_steps, pre_judge)
    subs = [pre_sub]
    for _ in range(20):
        subs.append(affine_sub(chk, rng, aff, dict(rows), wid, tname,
                               extra=dict(form=form,
                                          rows=[list(k) for k in rows]),
                               consistent=consistent, scaled=scaled))
    return world_program(chk, plan, subs, wid)


def run(chk, R, tier, seed):
    rng = random.Random("C14-%d" % seed)
    for c in ("reverse-lookup conversions", "forward conversions",
              "missing pairs", "table form|mapping", "table form|list",
              "fixed points", "triples", "comparisons across units",
              "sums and differences across units",
              "conversions with both directions tabulated inconsistently "
              "(forward row must win)",
              "worlds", "tables registered on the type|2",
              "conversions whose result is zero",
              "unregistered converter tabulating the missing pairs|"
              "never-registered",
              "unregistered converter tabulating the missing pairs|removed",
              "pairs with a scaled unit no row names"):
        chk.require(c)
    wrap = lambda jd: (lambda obs, rec, case: jd(obs))      # noqa: E731
    rows = {(u, v) for u in TEMP for v in TEMP if u != v}
    cases = []
    for fx in FIXED:
        st, jd = affine_sub(chk, rng, TEMP, rows, "temperature",
                            "Temperature", fixed=fx)
        cases.append(Case(st, wrap(jd)))
    n = 5000 if tier == "quick" else 50000
    for _ in range(n):
        st, jd = affine_sub(chk, rng, TEMP, rows, "temperature",
                            "Temperature")
        cases.append(Case(st, wrap(jd)))
    chk.exhaustive["ordered pairs and triples of temperature units"] = True
    run_cases(chk, R, cases, per_program=80)
    nw = 120 if tier == "quick" else 1000
    run_cases(chk, R, [synthetic_world(chk, rng, i) for i in range(nw)],
              preload=("quantity",))
