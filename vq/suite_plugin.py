"""pytest plugin: the repository's own test-suite as a workload under monitors.

Loaded with ``-p vq.suite_plugin`` (DESIGN.md 9.7). It wraps a few choke
points of the package with observers that never change a result and never
raise into the code under test, and writes what they saw to
``$VQ_SUITEMON_OUT/<pid>.json`` when the session ends. The invariants are the
ones that need no model of the test's own declarations:

  C05  every instance leaving ``Quantity.__new__`` holds an exact rational
       amount, and one that is a multiple of its unit's quantum if the unit
       has one
  C19  whenever ``==`` between two quantities, units, terms or exchange rates
       returns True, their hashes are equal
  C07  what ``Term.normalized()`` returns is a normal form (one leading
       number != 1, base elements only, each once, non-zero int exponents,
       sorted by norm_sort_key), normalising it again returns the identical
       object, and no float appears in a term built from float-free input
  C04  every rich comparison between two quantities agrees with its mirror
       image evaluated at the same moment (a < b iff b > a, a == b iff
       not a != b, a <= b iff a < b or a == b)

The judging of what was recorded happens in vq/suitemon.py (controller side).
"""
import json
import os
import sys
from fractions import Fraction
from numbers import Rational

STATE = {
    "counts": {},
    "violations": [],
    "errors": [],
    "test": None,
    "busy": 0,
}
MAXV = 40


def _count(k, n=1):
    c = STATE["counts"]
    c[k] = c.get(k, 0) + n


def _viol(prop, mech, what):
    _count("violations|" + prop)
    v = STATE["violations"]
    if len(v) < MAXV:
        v.append(dict(prop=prop, mech=mech, what=what[:600],
                      test=STATE["test"]))


def _err(where, exc):
    _count("monitor errors")
    e = STATE["errors"]
    if len(e) < 10:
        e.append("%s: %s: %s" % (where, type(exc).__name__, str(exc)[:200]))


def _frac(x):
    return Fraction(int(x.numerator), int(x.denominator))


def _rep(x):
    try:
        return repr(x)[:120]
    except Exception:
        return "<%s>" % type(x).__name__


def install():
    import quantity
    from quantity import Quantity, Unit
    from quantity.term import Term
    from quantity import money
    ExchangeRate = money.ExchangeRate
    exact = {"Decimal", "Fraction", "int"}

    # ------------------------------------------------------------------ C05
    orig_new = Quantity.__dict__["__new__"]
    if isinstance(orig_new, staticmethod):
        orig_new = orig_new.__func__

    def probe_new(cls, *args, **kw):
        q = orig_new(cls, *args, **kw)
        if STATE["busy"]:
            return q
        STATE["busy"] += 1
        try:
            if isinstance(q, Quantity):
                _count("C05|instances")
                a = q._amount
                if type(a).__name__ not in exact or isinstance(a, float):
                    _viol("C05", "ctor-invariant",
                          "%s holds its amount as %s" %
                          (_rep(q), type(a).__name__))
                u = q._unit
                qu = u.quantum
                if qu is not None:
                    _count("C05|instances of quantized units")
                    if (_frac(a) / _frac(qu)).denominator != 1:
                        _viol("C05", "ctor-invariant",
                              "%s: amount %s is not a multiple of the unit's "
                              "quantum %s" % (_rep(q), a, qu))
        except Exception as exc:             # the monitor must stay silent
            _err("ctor", exc)
        finally:
            STATE["busy"] -= 1
        return q

    Quantity.__new__ = probe_new

    # ------------------------------------------------------------------ C19
    families = (Quantity, Unit, Term, ExchangeRate)

    def family(x):
        for f in families:
            if isinstance(x, f):
                return f
        return None

    def wrap_eq(klass):
        orig = klass.__dict__.get("__eq__")
        if orig is None:
            return

        def eq(self, other):
            r = orig(self, other)
            if r is True and not STATE["busy"]:
                STATE["busy"] += 1
                try:
                    f = family(self)
                    if f is not None and family(other) is f and \
                            self is not other:
                        _count("C19|equal pairs|" + f.__name__)
                        try:
                            h1, h2 = hash(self), hash(other)
                        except Exception as exc:
                            h1 = h2 = None
                            _viol("C19", "hash-raises|" + f.__name__,
                                  "%s == %s but hash() raises %s: %s" %
                                  (_rep(self), _rep(other),
                                   type(exc).__name__, exc))
                        if h1 != h2:
                            mech = "eq-hash|" + f.__name__
                            if f is Quantity and \
                                    self._unit is not other._unit and \
                                    type(self).ref_unit is None:
                                mech = "converter-equality-hash"
                            _viol("C19", mech,
                                  "%s == %s but their hashes differ" %
                                  (_rep(self), _rep(other)))
                except Exception as exc:
                    _err("eq", exc)
                finally:
                    STATE["busy"] -= 1
            return r

        eq.__name__ = "__eq__"
        eq._vq_orig = orig
        # keep the class's own __hash__ (defining __eq__ in a class body
        # would reset it; assigning the attribute afterwards does not)
        setattr(klass, "__eq__", eq)

    for k in (Quantity, Unit, Term, ExchangeRate):
        wrap_eq(k)

    # ------------------------------------------------------------------ C04
    import operator
    mirror = {"__lt__": operator.gt, "__gt__": operator.lt,
              "__le__": operator.ge, "__ge__": operator.le}

    def wrap_cmp(klass, name):
        orig = klass.__dict__.get(name)
        if orig is None:
            return

        def cmp(self, other):
            r = orig(self, other)
            if isinstance(r, bool) and isinstance(other, Quantity) and \
                    not STATE["busy"]:
                STATE["busy"] += 1
                try:
                    _count("C04|comparisons")
                    m = mirror[name](other, self)
                    if m is not r:
                        _viol("C04", "comparison",
                              "%s %s %s is %s but the mirrored comparison is "
                              "%s" % (_rep(self), name, _rep(other), r, m))
                    e = (self == other)
                    lt = orig_lt(self, other) if name != "__lt__" else r
                    gt = orig_lt(other, self)
                    if [lt, e, gt].count(True) != 1:
                        _viol("C04", "comparison",
                              "%s vs %s: <, ==, > give %s, %s, %s" %
                              (_rep(self), _rep(other), lt, e, gt))
                except Exception as exc:
                    _err("cmp", exc)
                finally:
                    STATE["busy"] -= 1
            return r

        cmp.__name__ = name
        setattr(klass, name, cmp)

    orig_lt = Quantity.__dict__["__lt__"]
    for nm in mirror:
        wrap_cmp(Quantity, nm)

    # ------------------------------------------------------------------ C07
    def has_float(items):
        for el, ex in items:
            if isinstance(el, float) or isinstance(ex, float):
                return True
        return False

    orig_norm = Term.normalized

    def normalized(self):
        t = orig_norm(self)
        if STATE["busy"]:
            return t
        STATE["busy"] += 1
        try:
            _count("C07|normalized() calls")
            bad = []
            if orig_norm(t) is not t:
                bad.append("normalising the result again gives another "
                           "object")
            items = t._items
            seen = []
            lastkey = None
            for i, (el, ex) in enumerate(items):
                if isinstance(el, Rational) or isinstance(el, float):
                    if i != 0:
                        bad.append("number %r at position %d" % (el, i))
                    if ex != 1:
                        bad.append("number with exponent %r" % (ex,))
                    if el == 1:
                        bad.append("numeric factor one kept")
                    if isinstance(el, float) and not has_float(self._items):
                        bad.append("float %r introduced" % (el,))
                    continue
                if not isinstance(ex, int) or isinstance(ex, bool) or ex == 0:
                    bad.append("exponent %r of %s" % (ex, _rep(el)))
                if not el.is_base_elem():
                    bad.append("non-base element %s" % _rep(el))
                if any(el is s for s in seen):
                    bad.append("element %s twice" % _rep(el))
                seen.append(el)
                k = el.norm_sort_key()
                if lastkey is not None and k < lastkey:
                    bad.append("elements out of order at %s" % _rep(el))
                lastkey = k
            if bad:
                _viol("C07", "normal-form", "normalized(%s) = %s: %s" %
                      (_rep(self), _rep(t), "; ".join(bad[:4])))
        except Exception as exc:
            _err("normalized", exc)
        finally:
            STATE["busy"] -= 1
        return t

    Term.normalized = normalized

    def wrap_termop(name):
        orig = Term.__dict__.get(name)
        if orig is None:
            return

        def op(self, *args):
            r = orig(self, *args)
            if isinstance(r, Term) and not STATE["busy"]:
                STATE["busy"] += 1
                try:
                    _count("C07|term operations")
                    clean = not has_float(self._items)
                    for a in args:
                        if isinstance(a, float):
                            clean = False
                        elif isinstance(a, Term) and has_float(a._items):
                            clean = False
                    if clean and has_float(r._items):
                        _viol("C07", "term-float",
                              "%s of float-free operands %s, %s holds a "
                              "float: %s" % (name, _rep(self),
                                             [_rep(a) for a in args],
                                             _rep(r)))
                except Exception as exc:
                    _err("termop", exc)
                finally:
                    STATE["busy"] -= 1
            return r

        op.__name__ = name
        setattr(Term, name, op)

    for nm in ("__mul__", "__truediv__", "__rtruediv__", "__pow__",
               "reciprocal"):
        wrap_termop(nm)

    STATE["counts"]["installed"] = 1
    STATE["pkg"] = os.path.dirname(os.path.abspath(quantity.__file__))


def pytest_configure(config):
    try:
        install()
    except Exception as exc:
        _err("install", exc)


def pytest_runtest_setup(item):
    STATE["test"] = item.nodeid
    _count("tests")


def pytest_sessionfinish(session, exitstatus):
    out = os.environ.get("VQ_SUITEMON_OUT")
    if not out:
        return
    try:
        os.makedirs(out, exist_ok=True)
        with open(os.path.join(out, "%d.json" % os.getpid()), "w") as f:
            json.dump(dict(counts=STATE["counts"],
                           violations=STATE["violations"],
                           errors=STATE["errors"], pkg=STATE.get("pkg"),
                           exitstatus=int(exitstatus)), f)
    except Exception as exc:
        sys.stderr.write("suite_plugin: cannot write results: %s\n" % exc)
