"""Worker: runs inside the system under test.

usage: python -m vq.worker <jobfile.json> <outfile.jsonl>

jobfile: {"preload": [module names], "accel": bool, "reach": bool,
          "programs": [{"pid": ..., "isolate": bool, "steps": [...]}, ...]}

For every program one JSON line {"pid":…, "obs": {key: record}, "ctor": […],
"nctor": n} is appended to outfile; a final line {"done": true, "reach": …}.

Nothing here judges anything: the worker only executes the public API of the
real package and reports what it saw.
"""
from __future__ import annotations

import hashlib
import importlib
import inspect
import json
import operator
import os
import select
import signal
import sys
import traceback
from fractions import Fraction

# --------------------------------------------------------------------------
# substrate accelerator (pure-Python decimalfp only) -- DESIGN.md section 3

ACCEL_STATE = {"installed": False, "reason": "not requested"}


def _accel_source_hash(fn):
    return hashlib.sha256(inspect.getsource(fn).encode()).hexdigest()


def install_accel():
    """Early exit for non-terminating quotients in _pydecimalfp.

    Both callers of _approx_rational use (v, p) only when the remainder is
    zero; a non-zero remainder merely selects 'raise' / 'return Fraction'.
    """
    try:
        import decimalfp
        from decimalfp import _pydecimalfp as P
    except Exception as exc:  # pragma: no cover
        ACCEL_STATE["reason"] = "import failed: %r" % (exc,)
        return
    if decimalfp.Decimal is not P.Decimal:
        ACCEL_STATE["reason"] = "native back end active"
        return
    orig = P._approx_rational
    if getattr(orig, "_vq_wrapped", False):
        return
    h = _accel_source_hash(orig)
    audited = _load_audited_hash()
    if tuple(decimalfp.__version__)[:3] != (0, 13, 0) or h != audited:
        ACCEL_STATE["reason"] = "unaudited decimalfp source (%s %s)" % (
            decimalfp.__version__, h[:12])
        return

    def fast(num, den, min_prec=0):
        if num != 0 and den != 0:
            from math import gcd
            d = abs(den) // gcd(num, den)
            while d % 10 == 0:
                d //= 10
            while d % 2 == 0:
                d //= 2
            while d % 5 == 0:
                d //= 5
            if d != 1:
                return 0, min_prec, 1   # remainder != 0: not a decimal
        return orig(num, den, min_prec)

    fast._vq_wrapped = True
    # start-up equivalence battery: where orig says r == 0, fast must return
    # the identical triple; where orig says r != 0, fast must say r != 0.
    battery = [(0, 1, 0), (0, 7, 3), (1, 2, 0), (-1, 2, 0), (1, 3, 0),
               (-7, 3, 2), (10, 4, 0), (1, 8, 5), (123456789, 1000, 0),
               (1, 10 ** 40, 0), (-5, 10 ** 20 * 3, 0), (22, 7, 0),
               (1, 2 ** 30, 0), (1, 5 ** 30, 2), (7, -8, 0), (-7, -8, 0),
               (3, 6, 0), (1, 1, 4), (10 ** 50, 1, 0), (1, 2 ** 70 * 3, 0)]
    for num, den, mp in battery:
        a = orig(num, den, mp)
        b = fast(num, den, mp)
        if (a[2] == 0) != (b[2] == 0) or (a[2] == 0 and a != b):
            ACCEL_STATE["reason"] = "battery mismatch on %r" % ((num, den, mp),)
            return
    P._approx_rational = fast
    ACCEL_STATE["installed"] = True
    ACCEL_STATE["reason"] = "ok"


def _load_audited_hash():
    here = os.path.dirname(os.path.abspath(__file__))
    try:
        with open(os.path.join(here, "accel_audited.sha256")) as f:
            return f.read().strip()
    except OSError:
        return None


# --------------------------------------------------------------------------
# reach monitor (sys.monitoring, evidence of reach only)

REACH = {"hits": set(), "inherited": 0, "on": False}


def install_reach(pkg_dir):
    mon = getattr(sys, "monitoring", None)
    if mon is None:
        return
    tool = mon.COVERAGE_ID
    try:
        mon.use_tool_id(tool, "vq-reach")
    except ValueError:
        return
    hits = REACH["hits"]

    def on_line(code, line):
        fn = code.co_filename
        if fn.startswith(pkg_dir):
            hits.add((fn[len(pkg_dir):], code.co_qualname, line))
        return mon.DISABLE

    mon.register_callback(tool, mon.events.LINE, on_line)
    mon.set_events(tool, mon.events.LINE)
    REACH["on"] = True


def reach_report(pkg_dir, delta_from=0):
    """qualname -> sorted lines hit."""
    out = {}
    for fn, qn, line in REACH["hits"]:
        out.setdefault(fn + ":" + qn, []).append(line)
    for k in out:
        out[k].sort()
    return out


# --------------------------------------------------------------------------
# describing values (public observables only)

def _nd(x):
    return [int(x.numerator), int(x.denominator)]


class Ctx:
    """Interpreter context of one worker process."""

    def __init__(self):
        import quantity
        import decimalfp
        self.q = quantity
        self.decimalfp = decimalfp
        self.Quantity = quantity.Quantity
        self.Unit = quantity.Unit
        self.Term = quantity.term.Term
        self.QuantityMeta = quantity.QuantityMeta
        self.vars = {}
        self.stubs = {}
        self.ctor_events = {}
        self.nctor = 0
        self.ExchangeRate = None
        self.MoneyConverter = None
        if "quantity.money" in sys.modules:
            m = sys.modules["quantity.money"]
            self.ExchangeRate = m.ExchangeRate
            self.MoneyConverter = m.MoneyConverter

    # ---- describe
    def describe(self, obj, depth=0):
        from numbers import Rational
        if obj is None:
            return {"k": "None"}
        if obj is NotImplemented:
            return {"k": "NotImplemented"}
        if isinstance(obj, bool):
            return {"k": "bool", "v": obj}
        if isinstance(obj, float):
            return {"k": "N", "at": "float", "hex": obj.hex(),
                    "a": _nd(Fraction(obj)) if obj == obj and
                    obj not in (float("inf"), float("-inf")) else None}
        if isinstance(obj, int):
            return {"k": "N", "at": "int", "a": [obj, 1]}
        if isinstance(obj, self.Quantity):
            u = obj.unit
            a = obj.amount
            rec = {"k": "Q", "t": type(obj).__name__, "u": u.symbol,
                   "uid": id(u), "at": type(a).__name__,
                   "ut": type(u.qty_cls).__name__ and u.qty_cls.__name__}
            if isinstance(a, float):
                rec["a"] = _nd(Fraction(a))
            else:
                rec["a"] = _nd(a)
            return rec
        if isinstance(obj, self.Unit):
            return {"k": "U", "sym": obj.symbol, "uid": id(obj),
                    "t": obj.qty_cls.__name__, "ucls": type(obj).__name__}
        if isinstance(obj, Elem):
            return {"k": "Elem", "name": obj.name}
        if isinstance(obj, self.Term):
            items = []
            for elem, exp in obj.items:
                items.append([self.describe(elem, depth + 1), exp])
            return {"k": "Term", "items": items}
        if self.ExchangeRate is not None and \
                isinstance(obj, self.ExchangeRate):
            rec = {"k": "X", "uc": obj.unit_currency.symbol,
                   "tc": obj.term_currency.symbol,
                   "ucid": id(obj.unit_currency),
                   "tcid": id(obj.term_currency),
                   "repr": repr(obj)}
            for name, attr in (("um", "_unit_multiple"),
                               ("ta", "_term_amount")):
                try:
                    rec[name] = self.describe(getattr(obj, attr), depth + 1)
                except Exception:
                    rec[name] = None
            for name in ("rate", "inverse_rate"):
                try:
                    rec[name] = self.describe(getattr(obj, name), depth + 1)
                except Exception as exc:
                    rec[name] = self.describe_exc(exc)
            try:
                quo = obj.quotation
                rec["quot"] = [quo[0].symbol, quo[1].symbol,
                               self.describe(quo[2], depth + 1)]
            except Exception as exc:
                rec["quot"] = self.describe_exc(exc)
            try:
                quo = obj.inverse_quotation
                rec["iquot"] = [quo[0].symbol, quo[1].symbol,
                                self.describe(quo[2], depth + 1)]
            except Exception as exc:
                rec["iquot"] = self.describe_exc(exc)
            return rec
        if isinstance(obj, Rational):
            return {"k": "N", "at": type(obj).__name__, "a": _nd(obj),
                    "mod": type(obj).__module__}
        import decimal
        if isinstance(obj, decimal.Decimal):
            return {"k": "N", "at": "StdDecimal", "a": _nd(Fraction(obj))}
        if isinstance(obj, complex):
            return {"k": "N", "at": "complex", "a": None, "repr": repr(obj)}
        if isinstance(obj, str):
            return {"k": "str", "v": obj}
        if isinstance(obj, (tuple, list)):
            if depth > 6:
                return {"k": "deep"}
            return {"k": "T", "seq": type(obj).__name__,
                    "items": [self.describe(x, depth + 1) for x in obj]}
        if isinstance(obj, self.QuantityMeta):
            return {"k": "Type", "name": obj.__name__, "tid": id(obj)}
        if self.MoneyConverter is not None and \
                isinstance(obj, self.MoneyConverter):
            return {"k": "MC", "cid": id(obj), "name": getattr(obj, "_vq_name", None)}
        if isinstance(obj, Stub):
            return {"k": "Stub", "name": obj.name, "calls": obj.calls}
        import datetime
        if isinstance(obj, datetime.date):
            return {"k": "date", "v": obj.isoformat()}
        return {"k": "obj", "cls": type(obj).__name__, "oid": id(obj),
                "name": getattr(getattr(obj, "__self__", obj), "_vq_name",
                                None)}

    def describe_exc(self, exc):
        return {"k": "E", "cls": type(exc).__name__,
                "mro": [c.__name__ for c in type(exc).__mro__],
                "msg": str(exc)[:300]}

    # ---- evaluation
    def ev(self, e):
        tag = e[0]
        fn = getattr(self, "e_" + tag, None)
        if fn is None:
            raise HarnessError("unknown expr tag %r" % (tag,))
        return fn(e)

    def e_i(self, e):
        return int(e[1])

    def e_F(self, e):
        return Fraction(int(e[1]), int(e[2]))

    def e_D(self, e):
        D = self.decimalfp.Decimal
        if len(e) > 2 and e[2] is not None:
            return D(e[1], e[2])
        return D(e[1])

    def e_SD(self, e):
        import decimal
        return decimal.Decimal(e[1])

    def e_fl(self, e):
        return float.fromhex(e[1])

    def e_cx(self, e):
        return complex(e[1], e[2])

    def e_s(self, e):
        return e[1]

    def e_b(self, e):
        return bool(e[1])

    def e_none(self, e):
        return None

    def e_u(self, e):
        return self.Unit(e[1])

    def e_v(self, e):
        try:
            return self.vars[e[1]]
        except KeyError:
            raise HarnessSkip("unbound variable %r" % (e[1],))

    def e_g(self, e):
        path = e[1].split(":")
        mod = importlib.import_module(path[0])
        obj = mod
        if len(path) > 1:
            for part in path[1].split("."):
                obj = getattr(obj, part)
        return obj

    def e_a(self, e):
        return getattr(self.ev(e[1]), e[2])

    def e_c(self, e):
        f = self.ev(e[1])
        args = [self.ev(x) for x in e[2]]
        kw = {k: self.ev(v) for k, v in (e[3] if len(e) > 3 else {}).items()}
        return f(*args, **kw)

    def e_m(self, e):
        o = self.ev(e[1])
        args = [self.ev(x) for x in e[3]]
        kw = {k: self.ev(v) for k, v in (e[4] if len(e) > 4 else {}).items()}
        return getattr(o, e[2])(*args, **kw)

    _OPS = {"+": operator.add, "-": operator.sub, "*": operator.mul,
            "/": operator.truediv, "**": operator.pow, "==": operator.eq,
            "!=": operator.ne, "<": operator.lt, "<=": operator.le,
            ">": operator.gt, ">=": operator.ge, "//": operator.floordiv,
            "%": operator.mod,
            # augmented assignment: falls back to the binary operator unless
            # the type defines the in-place method
            "+=": operator.iadd, "-=": operator.isub, "*=": operator.imul,
            "/=": operator.itruediv, "**=": operator.ipow}

    def e_op(self, e):
        a = self.ev(e[2])
        b = self.ev(e[3])
        return self._OPS[e[1]](a, b)

    def e_un(self, e):
        a = self.ev(e[2])
        k = e[1]
        if k == "neg":
            return -a
        if k == "pos":
            return +a
        if k == "abs":
            return abs(a)
        if k == "hash":
            return hash(a)
        if k == "str":
            return str(a)
        if k == "repr":
            return repr(a)
        if k == "len":
            return len(a)
        if k == "bool":
            return bool(a)
        if k == "list":
            return list(a)
        if k == "sorted":
            return sorted(a)
        if k == "setlen":
            return len(set(a))
        if k == "id":
            return id(a)
        if k == "type":
            return type(a).__name__
        raise HarnessError("unknown unary %r" % (k,))

    def e_round(self, e):
        a = self.ev(e[1])
        if len(e) > 2:
            return round(a, e[2])
        return round(a)

    def e_format(self, e):
        a = self.ev(e[1])
        if len(e) > 2:
            return format(a, e[2])
        return format(a)

    def e_l(self, e):
        return [self.ev(x) for x in e[1]]

    def e_t(self, e):
        return tuple(self.ev(x) for x in e[1])

    def e_dict(self, e):
        return {self.ev(k): self.ev(v) for k, v in e[1]}

    def e_term(self, e):
        items = [(self.ev(el), int(ex)) for el, ex in e[1]]
        if len(e) > 2 and e[2] == "tuple":
            items = tuple(items)
        return self.Term(items)

    def e_date(self, e):
        import datetime
        return datetime.date(e[1], e[2], e[3])

    def e_mode(self, e):
        return getattr(self.decimalfp.ROUNDING, e[1])

    def e_idx(self, e):
        return self.ev(e[1])[e[2]]

    def e_is(self, e):
        return self.ev(e[1]) is self.ev(e[2])

    def e_in(self, e):
        return self.ev(e[1]) in self.ev(e[2])

    def e_sum(self, e):
        items = self.ev(e[1])
        return self.q.sum(items)

    def e_convfn(self, e):
        spec = e[1]
        table = {}
        for frm, to, fac, off in spec.get("table", []):
            table[(frm, to)] = (self.ev(fac), self.ev(off))
        return ConvFn(spec["name"], table, spec.get("raises"))

    def e_stub(self, e):
        name = e[1]
        st = self.stubs.get(name)
        if st is None:
            st = self.stubs[name] = Stub(name)
        return st

    def e_elem(self, e):
        return self.vars[e[1]]

    def e_eqhash(self, e):
        """[a == b, hash(a), hash(b), len({a, b})] in one observation."""
        a = self.ev(e[1])
        b = self.ev(e[2])
        eq = a == b
        try:
            ha, hb, n = hash(a), hash(b), len({a, b})
        except Exception as exc:
            return [bool(eq), "unhashable", "%s: %s" % (type(exc).__name__,
                                                         exc)]
        return [bool(eq), ha == hb, n]

    def e_try(self, e):
        """evaluate, return description of result or exception as a value"""
        try:
            return ("ok", self.ev(e[1]))
        except Exception as exc:
            return ("exc", type(exc).__name__)

    # ---- steps
    def run_steps(self, steps, obs):
        for st in steps:
            self.run_step(st, obs)

    def run_step(self, st, obs):
        key = st.get("k")
        try:
            if "e" in st:
                val = self.ev(st["e"])
                if st.get("id"):
                    self.vars[st["id"]] = val
                if key is not None:
                    rec = self.describe(val)
                    if st.get("boundary") and rec.get("k") == "Q":
                        pass
                    obs[key] = rec
            elif "cls" in st:
                val = self.make_class(st["cls"])
                if st.get("id"):
                    self.vars[st["id"]] = val
                if key is not None:
                    obs[key] = self.describe(val)
            elif "with" in st:
                self.run_with(st, obs)
            elif "setmode" in st:
                df = self.decimalfp
                old = df.get_dflt_rounding_mode()
                df.set_dflt_rounding_mode(getattr(df.ROUNDING, st["setmode"]))
                try:
                    self.run_steps(st["body"], obs)
                finally:
                    df.set_dflt_rounding_mode(old)
            elif "snap" in st:
                obs[key] = self.snapshot(st["snap"])
            elif "defelem" in st:
                spec = st["defelem"]
                el = Elem(spec["name"], spec["key"], spec.get("family"),
                          self.ev(spec["factor"]) if spec.get("factor")
                          else None,
                          self.ev(spec["def"]) if spec.get("def") else None,
                          self)
                self.vars[spec["name"]] = el
            elif "setstub" in st:
                name, val = st["setstub"]
                self.e_stub(["stub", name]).value = self.ev(val)
            elif "clear" in st:
                self.vars = {k: v for k, v in self.vars.items()
                             if k.startswith("$")}
            elif "name_mc" in st:
                self.ev(st["name_mc"][0])._vq_name = st["name_mc"][1]
            else:
                raise HarnessError("unknown step %r" % (sorted(st),))
        except HarnessSkip as exc:
            if key is not None:
                obs[key] = {"k": "skip", "why": str(exc)}
        except HarnessError:
            raise
        except Exception as exc:  # the SUT's exception is an observation
            if key is not None:
                obs[key] = self.describe_exc(exc)
            elif st.get("must"):
                obs["!must:%s" % (st.get("id"),)] = self.describe_exc(exc)

    def make_class(self, spec):
        ns = {"Base": self.ev(spec["base"]) if spec.get("base")
              else self.Quantity}
        kw = {k: self.ev(v) for k, v in spec.get("kw", {}).items()}
        ns["kw"] = kw
        name = spec["name"]
        if not name.isidentifier():
            raise HarnessError("bad class name")
        src = "class %s(Base, **kw):\n    pass\n" % name
        exec(src, ns)       # a real class statement
        return ns[name]

    def run_with(self, st, obs):
        key = st.get("k")
        try:
            cm = self.ev(st["with"])
        except Exception as exc:
            if key is not None:
                obs[key] = dict(self.describe_exc(exc), phase="expr")
            return
        entered = False
        try:
            with cm as bound:
                entered = True
                if st.get("id"):
                    self.vars[st["id"]] = bound
                self.run_steps(st["body"], obs)
                if st.get("raise"):
                    raise Marker(st.get("raise"))
        except Marker as m:
            if key is not None:
                obs[key] = {"k": "with", "left": "marker",
                            "marker": m.args[0], "entered": entered}
            return
        except Exception as exc:
            if key is not None:
                obs[key] = dict(self.describe_exc(exc),
                                phase="enter" if not entered else "exit",
                                entered=entered)
            return
        if key is not None:
            obs[key] = {"k": "with", "left": "normal", "entered": entered,
                        "swallowed": bool(st.get("raise"))}

    def snapshot(self, spec):
        """Directory snapshot through public calls only."""
        out = {"syms": {}, "types": {}, "parse": {}}
        Unit, Quantity = self.Unit, self.Quantity
        for sym in spec.get("syms", []):
            try:
                u = Unit(sym)
                out["syms"][sym] = {"uid": id(u), "t": u.qty_cls.__name__,
                                    "sym": u.symbol}
            except Exception as exc:
                out["syms"][sym] = {"exc": type(exc).__name__}
            try:
                q = Quantity("1 " + sym)
                out["parse"][sym] = {"t": type(q).__name__,
                                     "u": q.unit.symbol, "uid": id(q.unit)}
            except Exception as exc:
                out["parse"][sym] = {"exc": type(exc).__name__,
                                     "mro": [c.__name__ for c in
                                             type(exc).__mro__]}
        types = dict(spec.get("types", {}))
        for label, var in types.items():
            if var == "__Quantity__":
                cls = Quantity
            else:
                cls = self.vars.get(var)
            if cls is None or not isinstance(cls, self.QuantityMeta):
                out["types"][label] = None
                continue
            rec = {}
            try:
                rec["units"] = [[u.symbol, id(u)] for u in cls.units()]
                rec["len"] = len(cls)
                rec["iter"] = list(iter(cls))
                rec["ref"] = (cls.ref_unit.symbol
                              if cls.ref_unit is not None else None)
                inn = {}
                byS = {}
                for sym in spec.get("syms", []):
                    inn[sym] = sym in cls
                    try:
                        byS[sym] = id(cls.get_unit_by_symbol(sym))
                    except Exception as exc:
                        byS[sym] = type(exc).__name__
                rec["in"] = inn
                rec["by"] = byS
            except Exception as exc:
                rec["exc"] = type(exc).__name__ + ": " + str(exc)[:100]
            out["types"][label] = rec
        return out


class HarnessError(Exception):
    pass


class HarnessSkip(Exception):
    pass


class Marker(Exception):
    pass


class Stub:
    """Counting stub for MoneyConverter's default-date callable."""

    def __init__(self, name):
        self.name = name
        self.value = None
        self.calls = 0

    def __call__(self):
        self.calls += 1
        return self.value


class ConvFn:
    """Harness-defined plain converter callable: conv(qty, to_unit)."""

    def __init__(self, name, table, raises=None):
        self._vq_name = name
        self.table = table
        self.raises = raises
        self.calls = 0

    def __call__(self, qty, to_unit):
        self.calls += 1
        if self.raises:
            raise RuntimeError("converter %s raises" % self._vq_name)
        try:
            fac, off = self.table[(qty.unit.symbol, to_unit.symbol)]
        except KeyError:
            return None
        return qty.amount * fac + off

    def conv(self, qty, to_unit):
        """the same as a method: every access `obj.conv` is a new bound
        method object that is equal, not identical, to the previous one"""
        return self(qty, to_unit)


class Elem:
    """Harness-defined non-numeric term element (NonNumTermElem protocol).

    Shaped like the library's own implementations: a *family* has one base
    (reference) element and derived members defined as factor * reference
    (possibly through chains); derived elements without family are defined by
    a term over other elements.  Base elements of the same sort key that are
    not in one family are not convertible (like currencies).
    """

    def __init__(self, name, key, family, factor, definition, ctx):
        self.name = name
        self._key = key
        self.family = family
        self.factor = factor        # relative to the family's base element
        self._definition = definition
        self._ctx = ctx

    def is_base_elem(self):
        return self._definition is None

    @property
    def definition(self):
        if self._definition is None:
            return self._ctx.Term(((self, 1),))
        return self._definition

    @property
    def normalized_definition(self):
        if self._definition is None:
            return self._ctx.Term(((self, 1),))
        return self._definition.normalized()

    def norm_sort_key(self):
        return self._key

    def _get_factor(self, other):
        if not isinstance(other, Elem):
            raise TypeError("not an Elem")
        if self._key != other._key:
            raise TypeError("different kind")
        if self.family is not None and self.family.startswith("!"):
            # like quantity classes: same sort key, but asking for a factor
            # is a TypeError, not "None"
            raise TypeError("elements of this kind are not convertible")
        if self.family is not None and self.family == other.family:
            return self.factor / other.factor
        return None

    def __eq__(self, other):
        if isinstance(other, Elem):
            if self.family is not None and self.family == other.family:
                return self.factor == other.factor
            return self is other
        return False

    def __hash__(self):
        return hash(self.name)

    def __str__(self):
        return self.name

    def __repr__(self):
        return "Elem(%r)" % self.name


# --------------------------------------------------------------------------
# constructor choke-point monitor

def install_ctor_probe(ctx):
    Quantity = ctx.Quantity
    orig = Quantity.__dict__["__new__"]
    if isinstance(orig, staticmethod):
        orig = orig.__func__
    if getattr(orig, "_vq_probe", False):
        return
    events = ctx.ctor_events

    def probe_new(cls, *args, **kw):
        q = orig(cls, *args, **kw)
        try:
            ctx.nctor += 1
            if len(events) < 400:
                a = q._amount if hasattr(q, "_amount") else q.amount
                u = q.unit
                try:
                    nd = (int(a.numerator), int(a.denominator))
                except Exception:
                    nd = (repr(a), None)
                events[(type(q).__name__, u.symbol, u.qty_cls.__name__,
                        nd, type(a).__name__)] = 1
        except Exception:
            pass
        return q

    probe_new._vq_probe = True
    Quantity.__new__ = probe_new


# --------------------------------------------------------------------------
# division logger (pure-Python decimalfp only): trigger predictor for the
# native tier of C01 -- DESIGN.md section 3

HAZARD = {"n": 0}


def install_divlog():
    try:
        import decimalfp
        from decimalfp import _pydecimalfp as P
    except Exception:
        return False
    if decimalfp.Decimal is not P.Decimal:
        return False
    D = P.Decimal
    orig = D.__truediv__
    if getattr(orig, "_vq_divlog", False):
        return True

    def truediv(self, other):
        try:
            if self.precision == 9 and (
                    isinstance(other, int) or
                    (isinstance(other, D) and other.precision == 0)):
                HAZARD["n"] += 1
        except Exception:
            pass
        return orig(self, other)

    truediv._vq_divlog = True
    D.__truediv__ = truediv
    return True


# --------------------------------------------------------------------------
# main loop

def run_program(ctx, prog):
    obs = {}
    ctx.ctor_events.clear()
    ctx.nctor = 0
    HAZARD["n"] = 0
    err = None
    try:
        ctx.run_steps(prog["steps"], obs)
    except HarnessError as exc:
        err = "harness: %s" % (exc,)
    except Exception:
        err = "harness crash: " + traceback.format_exc()[-600:]
    rec = {"pid": prog["pid"], "obs": obs, "nctor": ctx.nctor,
           "ctor": [list(k) for k in ctx.ctor_events],
           "hazard": HAZARD["n"]}
    if err:
        rec["err"] = err
    return rec


def run_isolated(ctx, prog, out, timeout, pkg_dir):
    """Run a program in a forked child (fresh copy of the process state)."""
    r, w = os.pipe()
    out.flush()
    pid = os.fork()
    if pid == 0:
        code = 0
        try:
            os.close(r)
            before = set(REACH["hits"])
            rec = run_program(ctx, prog)
            if REACH["on"]:
                new = REACH["hits"] - before
                d = {}
                for fn, qn, line in new:
                    d.setdefault(fn + ":" + qn, []).append(line)
                rec["reach"] = d
            data = json.dumps(rec).encode()
            with os.fdopen(w, "wb") as f:
                f.write(data)
        except BaseException as exc:
            code = 3
            try:
                os.write(w, json.dumps({
                    "pid": prog["pid"], "obs": {},
                    "died": "python exception in child: %s: %s" % (
                        type(exc).__name__, str(exc)[:200])}).encode())
            except BaseException:
                pass
        finally:
            os._exit(code)
    os.close(w)
    chunks = []
    deadline_hit = False
    import time
    t_end = time.monotonic() + timeout
    while True:
        left = t_end - time.monotonic()
        if left <= 0:
            deadline_hit = True
            break
        rl, _, _ = select.select([r], [], [], min(left, 5.0))
        if rl:
            b = os.read(r, 1 << 16)
            if not b:
                break
            chunks.append(b)
    os.close(r)
    if deadline_hit:
        try:
            os.kill(pid, signal.SIGKILL)
        except OSError:
            pass
    _, status = os.waitpid(pid, 0)
    if deadline_hit:
        return {"pid": prog["pid"], "obs": {}, "died": "timeout"}
    if os.WIFSIGNALED(status):
        return {"pid": prog["pid"], "obs": {},
                "died": "signal %d" % os.WTERMSIG(status)}
    try:
        rec = json.loads(b"".join(chunks).decode())
    except Exception:
        return {"pid": prog["pid"], "obs": {},
                "died": "exit %d, unreadable result" % os.WEXITSTATUS(status)}
    # merge child's reach delta
    for k, lines in rec.pop("reach", {}).items():
        fn, qn = k.split(":", 1)
        for line in lines:
            REACH["hits"].add((fn, qn, line))
    return rec


def _backend(decimalfp):
    P = sys.modules.get("decimalfp._pydecimalfp")
    if P is not None and decimalfp.Decimal is P.Decimal:
        return "pure-python"
    return "native"


def main(argv):
    jobfile, outfile = argv[1], argv[2]
    with open(jobfile) as f:
        job = json.load(f)
    if job.get("accel", True) and not os.environ.get("VERIF_NO_ACCEL"):
        install_accel()
    import quantity
    pkg_dir = os.path.dirname(os.path.abspath(quantity.__file__)) + os.sep
    if job.get("reach", True):
        install_reach(pkg_dir)
    for mod in job.get("preload", []):
        importlib.import_module(mod)
    ctx = Ctx()
    if job.get("ctor_probe", True):
        install_ctor_probe(ctx)
    if job.get("divlog"):
        install_divlog()
    if job.get("faulthandler"):
        import faulthandler
        faulthandler.enable()
    timeout = float(job.get("prog_timeout", 120))
    import decimalfp
    with open(outfile, "w") as out:
        out.write(json.dumps({
            "hello": True, "accel": ACCEL_STATE,
            "backend": _backend(decimalfp),
            "quantity_file": quantity.__file__,
            "python": sys.version.split()[0]}) + "\n")
        for prog in job["programs"]:
            if prog.get("isolate"):
                rec = run_isolated(ctx, prog, out, timeout, pkg_dir)
            else:
                rec = run_program(ctx, prog)
            out.write(json.dumps(rec) + "\n")
        out.write(json.dumps({"done": True,
                              "reach": reach_report(pkg_dir)}) + "\n")
    return 0


if __name__ == "__main__":
    sys.exit(main(sys.argv))
