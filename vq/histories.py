"""Declaration histories with snapshots (shared by C15 and C16)."""
from __future__ import annotations

from fractions import Fraction as F

from .cases import Case, Q, U, V, M, OP
from .ctl import num, val, is_exc
from .gen import Decl, random_plan, NAMES
from .models.world import World, Rejected, OutOfDomain, reduce_typedef
from .oracle import brief, judge_prediction
from .ops import operand, describe_operand

FAULT_CLASSES = [
    "dup-dimension", "dup-dimension-permuted", "dup-dimension-explicit-symbol",
    "dup-symbol-unit", "dup-symbol-type", "empty-symbol", "non-string-symbol",
    "wrong-type-definition", "wrong-dimension-term", "term-defines-no-unit",
    "derive-wrong-units", "derive-wrong-count", "derive-on-base-type",
    "bad-definition-object", "quantum-without-ref",
    "derived-type-taken-symbol", "invalid-type-definition-term",
]


class Fault:
    """An invalid declaration attempt: steps + the symbols / type variable it
    tries to introduce."""

    def __init__(self, cls, steps_fn, new_syms=(), new_type=None, desc="",
                 followup=None):
        self.followup = followup    # a valid declaration that must still
        #                             be possible after the rejection
        self.probes = []            # expressions evaluated before and after
        #                             the attempt; results must be identical
        self.cls = cls
        self.steps_fn = steps_fn
        self.new_syms = list(new_syms)
        self.new_type = new_type
        self.desc = desc

    def steps(self, key):
        before = [{"k": "%s.pb%d" % (key, i), "e": e}
                  for i, e in enumerate(self.probes)]
        after = [{"k": "%s.pa%d" % (key, i), "e": e}
                 for i, e in enumerate(self.probes)]
        return before + self.steps_fn(key) + after


def make_fault(rng, w: World, cls, fresh):
    f = _make_fault(rng, w, cls, fresh)
    if f is not None and len(w.units) >= 2:
        # "every subsequent result is the same": a few unit-level and
        # quantity-level operations around the attempt
        syms = list(w.units)
        for _ in range(3):
            a, b = rng.choice(syms), rng.choice(syms)
            op = rng.choice("*/")
            f.probes.append(OP(op, U(a), U(b)))
            f.probes.append(OP(op, Q(["i", 6], a), Q(["i", 4], b)))
    return f


def _make_fault(rng, w: World, cls, fresh):
    """Build a fault of class cls against the current model state; returns
    None if the state offers no opportunity.  `fresh()` yields an unused
    symbol / name."""
    types = list(w.types.values())
    derived = [t for t in types if not t.base]
    with_ref = [t for t in types if t.has_ref]
    if cls in ("dup-dimension", "dup-dimension-permuted",
               "dup-dimension-explicit-symbol"):
        cands = [t for t in derived
                 if cls == "dup-dimension" or len(t.defn) >= 2]
        if cls == "dup-dimension-explicit-symbol":
            cands = list(derived)
        if not cands:
            return None
        t = rng.choice(cands)
        items = list(t.defn)
        if cls == "dup-dimension-permuted":
            items = items[::-1]
        name = fresh("T")
        kw = {"define_as": ["term", [[V(n), e] for n, e in items]]}
        syms = []
        if cls == "dup-dimension-explicit-symbol":
            sym = fresh("s")
            kw["ref_unit_symbol"] = ["s", sym]
            syms = [sym]
        elif t.has_ref:
            # default symbol: for the permuted order it is a new symbol
            d = Decl("derived", name=name, items=items)
            tm = type("x", (), {"defn": reduce_typedef(items)})
            s = w.default_ref_symbol(tm)
            if s is not None:
                syms = [s]
        return Fault(cls, lambda k: [{"cls": {"name": name, "kw": kw},
                                      "id": name, "k": k}],
                     new_syms=syms, new_type=name,
                     desc="class %s(define_as=%s) duplicates %s" %
                     (name, items, t.name))
    if cls == "dup-symbol-unit":
        if not w.units or not types:
            return None
        sym = rng.choice(list(w.units))
        two = [t for t in derived if len(t.defn) == 2 and
               t.defn[0][1] == 1 and t.defn[1][1] in (1, -1) and
               all(w.units_of(n) for n, _ in t.defn)]
        if two and rng.random() < 0.5:
            # a definition from two existing units; its product / quotient
            # is evaluated before and after the rejected attempt
            t = rng.choice(two)
            u1 = rng.choice([u.sym for u in w.units_of(t.defn[0][0])])
            u2 = rng.choice([u.sym for u in w.units_of(t.defn[1][0])])
            d = Decl("derive", t=t.name, sym=sym, units=[u1, u2])
            f = Fault(cls, lambda k: [{"k": k, "e": d.expr()}],
                      desc="%s.derive_unit_from(%s, %s, symbol=%r (taken))" %
                      (t.name, u1, u2, sym))
            op = "*" if t.defn[1][1] == 1 else "/"
            f.probes = [OP(op, U(u1), U(u2)),
                        OP(op, Q(["i", 36], u1), Q(["i", 2], u2))]
            return f
        t = rng.choice(types)
        if t.has_ref:
            e = M(V(t.name), "new_unit", ["s", sym], ["s", "dup"],
                  OP("*", ["i", 3], U(t.ref)))
        elif t.base:
            e = M(V(t.name), "new_unit", ["s", sym])
        else:
            return None
        return Fault(cls, lambda k: [{"k": k, "e": e}],
                     desc="%s.new_unit(%r) again" % (t.name, sym))
    if cls == "derived-type-taken-symbol":
        # a derived type of a free dimension whose explicit reference-unit
        # symbol is taken; the same dimension must stay available
        if len(with_ref) < 1 or not w.units:
            return None
        for _ in range(20):
            items = [(rng.choice(with_ref).name, rng.choice([1, 2, -1, 3]))
                     for _ in range(rng.choice([1, 2, 2]))]
            red = reduce_typedef(items)
            if not red:
                continue
            dim = w.expand_dim(red)
            if not dim or w.type_by_dim(dim) is not None:
                continue
            sym = rng.choice(list(w.units))
            name = fresh("T")
            kw = {"define_as": ["term", [[V(n), e] for n, e in items]],
                  "ref_unit_symbol": ["s", sym]}
            follow = Decl("derived", name=fresh("T"), items=items,
                          ref=fresh("s"), form="term")
            return Fault(cls, lambda k: [{"cls": {"name": name, "kw": kw},
                                          "id": name, "k": k}],
                         new_type=name, followup=follow,
                         desc="class %s(define_as=%s, ref_unit_symbol=%r "
                         "(taken))" % (name, items, sym))
        return None
    if cls == "dup-symbol-type":
        if not w.units:
            return None
        sym = rng.choice(list(w.units))
        name = fresh("T")
        return Fault(cls, lambda k: [{"cls": {"name": name, "kw": {
            "ref_unit_symbol": ["s", sym]}}, "id": name, "k": k}],
            new_type=name, desc="base type %s with taken reference symbol %r"
            % (name, sym))
    if cls in ("empty-symbol", "non-string-symbol"):
        cands = [t for t in types if t.has_ref or t.base]
        if not cands:
            return None
        t = rng.choice(cands)
        s = ["s", ""] if cls == "empty-symbol" else \
            rng.choice([["i", 5], ["none"], ["F", 1, 2]])
        dcands = [t_ for t_ in derived
                  if all(w.units_of(n) for n, _ in t_.defn)]
        if dcands and cls == "empty-symbol" and rng.random() < 0.4:
            # the same through derive_unit_from(..., symbol='')
            t = rng.choice(dcands)
            us = [rng.choice([u.sym for u in w.units_of(n)])
                  for n, _ in t.defn]
            e = ["m", V(t.name), "derive_unit_from", [U(x) for x in us],
                 {"symbol": s}]
            return Fault(cls, lambda k: [{"k": k, "e": e}],
                         desc="%s.derive_unit_from(%s, symbol='')" %
                         (t.name, us))
        if t.has_ref:
            e = M(V(t.name), "new_unit", s, ["s", "x"],
                  OP("*", ["i", 3], U(t.ref)))
        else:
            e = M(V(t.name), "new_unit", s)
        return Fault(cls, lambda k: [{"k": k, "e": e}],
                     desc="%s.new_unit(%s)" % (t.name, s))
    if cls == "wrong-type-definition":
        if len(with_ref) < 2:
            return None
        t, o = rng.sample(with_ref, 2)
        # a subclass with a reference unit of its own is another type too,
        # although its instances are instances of the parent class
        subs = [(w.types[getattr(s_, "subclass_of", None)], s_)
                for s_ in with_ref
                if getattr(s_, "subclass_of", None) in w.types and
                w.types[s_.subclass_of] in with_ref]
        if subs and rng.random() < 0.6:
            t, o = rng.choice(subs)
            if rng.random() < 0.3:
                t, o = o, t
        sym = fresh("s")
        e = M(V(t.name), "new_unit", ["s", sym], ["s", "x"],
              OP("*", num(F(5, 2)), U(rng.choice(
                  [u.sym for u in w.units_of(o.name)]))))
        return Fault(cls, lambda k: [{"k": k, "e": e}], new_syms=[sym],
                     desc="%s.new_unit(%r, k * unit of %s)" %
                     (t.name, sym, o.name))
    if cls in ("wrong-dimension-term", "term-defines-no-unit"):
        if not with_ref or len(w.units) < 2:
            return None
        t = rng.choice(with_ref)
        sym = fresh("s")
        for _ in range(20):
            us = rng.sample(list(w.units), min(2, len(w.units)))
            items = [(("u", us[0]), rng.choice([1, 2, -1]))]
            if len(us) > 1 and rng.random() < 0.6:
                items.append((("u", us[1]), rng.choice([1, -1, -2])))
            if rng.random() < 0.5:
                items.insert(0, (("n", F(3)), 1))
            try:
                f, vec = w.term_den(items)
            except OutOfDomain:
                continue
            ok = w.term_accepts(t.name, f, vec)
            dim = w.dim_of_vec(vec) if vec else {}
            exists = bool(vec) and w.type_by_dim(dim) is not None
            if ok is False and ((cls == "wrong-dimension-term" and exists)
                                or (cls == "term-defines-no-unit"
                                    and not exists)):
                d = Decl("term", t=t.name, sym=sym, items=items)
                return Fault(cls, lambda k: [{"k": k, "e": d.expr()}],
                             new_syms=[sym],
                             desc="%s.new_unit(%r, Term(%s))" %
                             (t.name, sym, items))
        return None
    if cls in ("derive-wrong-units", "derive-wrong-count"):
        cands = [t for t in derived
                 if all(w.units_of(n) for n, _ in t.defn)]
        if not cands:
            return None
        t = rng.choice(cands)
        sym = fresh("s")
        us = [rng.choice([u.sym for u in w.units_of(n)]) for n, _ in t.defn]
        if cls == "derive-wrong-count":
            us = us[:-1] if rng.random() < 0.5 and len(us) > 1 else \
                us + [us[0]]
        else:
            other = [u.sym for u in w.units.values()
                     if u.tname != t.defn[0][0]]
            if not other:
                return None
            us[0] = rng.choice(other)
        d = Decl("derive", t=t.name, sym=sym, units=us)
        return Fault(cls, lambda k: [{"k": k, "e": d.expr()}], new_syms=[sym],
                     desc="%s.derive_unit_from(%s)" % (t.name, us))
    if cls == "derive-on-base-type":
        base = [t for t in types if t.base and w.units_of(t.name)]
        if not base:
            return None
        t = rng.choice(base)
        sym = fresh("s")
        d = Decl("derive", t=t.name, sym=sym,
                 units=[w.units_of(t.name)[0].sym])
        return Fault(cls, lambda k: [{"k": k, "e": d.expr()}], new_syms=[sym],
                     desc="%s.derive_unit_from(...) on a base type" % t.name)
    if cls == "quantum-without-ref":
        name = fresh("T")
        kw = {"quantum": ["D", "0.5"]}
        if derived and rng.random() < 0.5:
            nr = [t for t in types if not t.has_ref]
            if nr:
                kw["define_as"] = ["term", [[V(nr[0].name), 1],
                                            [V(types[0].name), 2]]]
        return Fault(cls, lambda k: [{"cls": {"name": name, "kw": kw},
                                      "id": name, "k": k}], new_type=name,
                     desc="class %s(quantum=0.5) without reference unit" %
                     name)
    if cls == "invalid-type-definition-term":
        # a class statement whose define_as is a term, but not one of
        # quantity types only: a numeric factor in it, or units in place of
        # the types; with an explicit (free) reference-unit symbol
        if len(with_ref) < 1:
            return None
        t1, t2 = rng.choice(with_ref), rng.choice(with_ref)
        sym = fresh("s")
        name = fresh("T")
        kind = rng.choice(["number", "units", "number-first"])
        if kind == "units":
            term = ["term", [[U(t1.ref), 1], [U(t2.ref), rng.choice([1, -1,
                                                                      2])]]]
        elif kind == "number":
            term = ["term", [[V(t1.name), 2], [["D", "2"], 1]]]
        else:
            term = ["term", [[["i", 3], 1], [V(t1.name), 1], [V(t2.name),
                                                            -2]]]
        kw = {"define_as": term, "ref_unit_symbol": ["s", sym]}
        follow = Decl("scaled", t=t1.name, sym=sym, k=F(5),
                      parent=t1.ref)
        return Fault(cls, lambda k: [{"cls": {"name": name, "kw": kw},
                                      "id": name, "k": k}],
                     new_syms=[sym], new_type=name, followup=follow,
                     desc="class %s(define_as=<term with %s>, "
                     "ref_unit_symbol=%r)" % (name, kind, sym))
    if cls == "bad-definition-object":
        if not with_ref:
            return None
        t = rng.choice(with_ref)
        sym = fresh("s")
        e = M(V(t.name), "new_unit", ["s", sym], ["s", "x"],
              rng.choice([["i", 5], ["s", "3 m"], ["l", []]]))
        return Fault(cls, lambda k: [{"k": k, "e": e}], new_syms=[sym],
                     desc="%s.new_unit(%r, <not a quantity/term>)" %
                     (t.name, sym))
    return None


def model_snapshot(w: World, syms, typevars):
    out = {"syms": {}, "types": {}}
    for s in syms:
        out["syms"][s] = w.units[s].tname if s in w.units else None
    for label in typevars:
        if label == "Quantity":
            out["types"][label] = set()
        elif label in w.types:
            out["types"][label] = {u.sym for u in w.units_of(label)}
        else:
            out["types"][label] = None
    return out


def compare_snapshot(w, snap, syms, typevars, uids, where):
    """-> list of problems; uids: symbol -> identity token seen first"""
    bad = []
    if snap is None or "syms" not in snap:
        return ["%s: snapshot missing" % where]
    want = model_snapshot(w, syms, typevars)
    for s in syms:
        got = snap["syms"].get(s, {})
        parse = snap["parse"].get(s, {})
        wt = want["syms"][s]
        if wt is None:
            if "exc" not in got:
                bad.append("%s: symbol %r must be unknown but Unit(%r) "
                           "answers a %s unit" % (where, s, s, got.get("t")))
            elif got["exc"] != "ValueError":
                bad.append("%s: Unit(%r) raises %s, not ValueError" %
                           (where, s, got["exc"]))
            if "exc" not in parse:
                bad.append("%s: parsing '1 %s' produced an instance of %s" %
                           (where, s, parse.get("t")))
            elif "QuantityError" not in parse.get("mro", ()):
                bad.append("%s: parsing '1 %s' raises %s, not a "
                           "QuantityError" % (where, s, parse["exc"]))
        else:
            if "exc" in got:
                bad.append("%s: declared unit %r is not found (%s)" %
                           (where, s, got["exc"]))
                continue
            if got.get("t") != wt or got.get("sym") != s:
                bad.append("%s: Unit(%r) belongs to %s, declared for %s" %
                           (where, s, got.get("t"), wt))
            if s in uids and uids[s] != got.get("uid"):
                bad.append("%s: Unit(%r) is no longer the identical object" %
                           (where, s))
            uids.setdefault(s, got.get("uid"))
            if parse.get("t") != wt or parse.get("uid") != got.get("uid"):
                bad.append("%s: parsing '1 %s' gives %s" %
                           (where, s, parse.get("t") or parse.get("exc")))
    for label in typevars:
        wt = want["types"][label]
        got = snap["types"].get(label)
        if wt is None:
            if got is not None:
                bad.append("%s: rejected type %s exists" % (where, label))
            continue
        if got is None:
            bad.append("%s: type %s not inspectable" % (where, label))
            continue
        if "exc" in got:
            bad.append("%s: inspecting %s raised %s" % (where, label,
                                                        got["exc"]))
            continue
        listed = [s for s, _ in got["units"]]
        if set(listed) != wt or len(listed) != len(wt):
            extra = sorted(set(listed) - wt)
            missing = sorted(wt - set(listed))
            bad.append("%s: %s lists units %s; unexpected %s, missing %s" %
                       (where, label, listed, extra, missing))
        if got["len"] != len(wt) or set(got["iter"]) != wt:
            bad.append("%s: len/iter of %s disagree with its units" %
                       (where, label))
        for s in syms:
            if got["in"].get(s) is not (s in wt):
                bad.append("%s: %r in %s is %s" % (where, s, label,
                                                   got["in"].get(s)))
            by = got["by"].get(s)
            if s in wt:
                if by != uids.get(s):
                    bad.append("%s: %s.get_unit_by_symbol(%r) is not the "
                               "unit" % (where, label, s))
            elif by != "ValueError":
                bad.append("%s: %s.get_unit_by_symbol(%r) gives %s" %
                           (where, label, s, by))
        if label != "Quantity" and label in w.types:
            if got["ref"] != w.types[label].ref:
                bad.append("%s: reference unit of %s is %r, expected %r" %
                           (where, label, got["ref"], w.types[label].ref))
    return bad


class History:
    """A history = list of events ('decl', Decl) | ('fault', Fault) with a
    snapshot after each; builds program steps and the judging closure."""

    def __init__(self, rng, events, probes=True):
        self.rng = rng
        self.events = events
        self.probes = probes

    def build(self):
        rng = self.rng
        w = World()
        steps = []
        trace = []      # per event: dict(kind, key, cls, expect, snapshot key,
                        #                 model copy, syms, typevars)
        syms = []
        typevars = ["Quantity"]
        steps.append({"k": "s_init", "snap": {
            "syms": [], "types": {"Quantity": "__Quantity__"}}})
        for i, (kind, ev) in enumerate(self.events):
            key = "e%d" % i
            before = w.copy()
            if kind == "decl":
                try:
                    ev.apply(w)
                    expect = "ok"
                    cls = ev.kind
                except Rejected as r:
                    expect = "reject"
                    cls = "model:" + r.cls
                except (OutOfDomain, KeyError) as exc:
                    # depends on something that was never created: skip
                    trace.append(dict(kind="skip", key=key))
                    continue
                steps.extend(ev.steps(key))
                for c in ev.creates():
                    if c.startswith("U:") and c[2:] not in syms:
                        syms.append(c[2:])
                    if c.startswith("T:") and c[2:] not in typevars:
                        typevars.append(c[2:])
                if ev.kind in ("base", "derived"):
                    if ev.p.get("ref") and ev.p["ref"] not in syms:
                        syms.append(ev.p["ref"])
                    if ev.p["name"] not in typevars:
                        typevars.append(ev.p["name"])
                elif ev.p.get("sym") and ev.p["sym"] not in syms:
                    syms.append(ev.p["sym"])
            else:
                expect = "reject"
                cls = ev.cls
                steps.extend(ev.steps(key))
                for s in ev.new_syms:
                    if s not in syms:
                        syms.append(s)
                if ev.new_type and ev.new_type not in typevars:
                    typevars.append(ev.new_type)
            skey = "s%d" % i
            steps.append({"k": skey, "snap": {
                "syms": list(syms),
                "types": {t: ("__Quantity__" if t == "Quantity" else t)
                          for t in typevars}}})
            trace.append(dict(kind=kind, key=key, cls=cls, expect=expect,
                              skey=skey, model=w.copy(), syms=list(syms),
                              typevars=list(typevars),
                              desc=getattr(ev, "desc", None) or repr(ev)))
        self.world = w
        self.steps = steps
        self.trace = trace
        return steps


def fresh_factory():
    counter = [0]

    def fresh(prefix):
        counter[0] += 1
        if prefix == "T":
            return "Rej%d" % counter[0]
        return "zz%d" % counter[0]
    return fresh


def diff_snapshots(before, after, new_syms=(), new_type=None):
    """Pure observation: what differs between the directory before and after
    a rejected step?  -> list of problems"""
    bad = []
    if before is None or after is None:
        return ["snapshot missing"]
    for s, b in before["syms"].items():
        a = after["syms"].get(s)
        if a != b:
            bad.append("Unit(%r): %s before, %s after" % (s, b, a))
        if after["parse"].get(s) != before["parse"].get(s):
            bad.append("parsing '1 %s': %s before, %s after" % (
                s, before["parse"].get(s), after["parse"].get(s)))
    for s in new_syms:
        if s in before["syms"] and "exc" not in before["syms"][s]:
            continue        # the symbol was known before the attempt
        a = after["syms"].get(s, {})
        if "exc" not in a:
            bad.append("symbol %r of the rejected declaration is known "
                       "afterwards (a %s unit)" % (s, a.get("t")))
        p = after["parse"].get(s, {})
        if "exc" not in p:
            bad.append("parsing '1 %s' produces an instance of %s" %
                       (s, p.get("t")))
    for label, b in before["types"].items():
        a = after["types"].get(label)
        if b is None or a is None:
            if a != b:
                bad.append("type %s: %s before, %s after" % (label, b, a))
            continue
        for field in ("units", "len", "iter", "ref"):
            if a.get(field) != b.get(field):
                bad.append("%s.%s: %s before, %s after" %
                           (label, field, b.get(field), a.get(field)))
        for s in b.get("in", {}):
            if a.get("in", {}).get(s) != b["in"][s]:
                bad.append("%r in %s changed" % (s, label))
    if new_type is not None and after["types"].get(new_type) is not None \
            and before["types"].get(new_type) is None:
        bad.append("rejected type %s exists" % new_type)
    # new symbols listed by any type
    for label, a in after["types"].items():
        if a and "units" in a:
            for s in new_syms:
                if s in [x for x, _ in a["units"]] and not (
                        before["types"].get(label) and s in
                        [x for x, _ in before["types"][label]["units"]]):
                    bad.append("%s lists %r after the rejection" % (label, s))
    return bad
