"""CLI: ./check C07 --tier quick | ./check --replay evidence/replay/x.json"""
from __future__ import annotations

import argparse
import importlib
import json
import os
import sys
import time


def main(argv=None):
    ap = argparse.ArgumentParser(prog="check")
    ap.add_argument("prop", nargs="?")
    ap.add_argument("--tier", default=os.environ.get("VERIF_TIER", "quick"),
                    choices=["quick", "thorough"])
    ap.add_argument("--replay")
    ap.add_argument("--seed", type=int,
                    default=int(os.environ.get("VERIF_SEED", "0") or 0))
    args = ap.parse_args(argv)
    if args.replay:
        from . import replay
        return replay.main(args.replay)
    if not args.prop:
        ap.error("property id required")
    prop = args.prop.upper()
    try:
        mod = importlib.import_module("vq.props." + prop.lower())
    except ImportError as exc:
        print("INCONCLUSIVE property=%s reason=no check module (%s)" %
              (prop, exc))
        return 2
    from .verdict import Check
    from .ctl import Runner
    chk = Check(prop, args.tier, args.seed,
                level=getattr(mod, "LEVEL", "exploration"),
                rule=getattr(mod, "RULE", ""))
    R = Runner()
    R.max_timeout = 300 if args.tier == "quick" else 3600
    try:
        try:
            # VERIF_ROUNDS=n repeats the whole workload with n different
            # generator seeds (seed, seed + 1000, ...) into one verdict and
            # one evidence file: the knob for going deeper than the default
            # thorough tier
            rounds = max(1, int(os.environ.get("VERIF_ROUNDS", "1") or 1))
            for rnd in range(rounds):
                mod.run(chk, R, args.tier, args.seed + 1000 * rnd)
            if rounds > 1:
                chk.count("rounds (VERIF_ROUNDS)", rounds)
        except Exception:
            import traceback
            chk.inconclusive_because("check crashed: " +
                                     traceback.format_exc()[-1500:])
        return chk.finish(R, anchors=getattr(mod, "ANCHORS", ()))
    finally:
        R.close()


if __name__ == "__main__":
    sys.exit(main())
