"""vq -- runtime monitoring of mamrhein/quantity (see /verif/DESIGN.md).

Two kinds of process:

* the *controller* (vq.main, vq.ctl, vq.models.*, vq.props.*) never imports
  ``quantity``; it generates programs, spawns workers, and judges the
  observation records with reference models written from the property texts;
* the *worker* (vq.worker) imports the real package from the repository's
  working tree, installs probes, interprets programs against the public API
  and streams observation records back.
"""
