"""Comparing observation records with model predictions."""
from __future__ import annotations

from fractions import Fraction

from .ctl import val, is_exc, EXACT_TYPES
from .models import rounding as RM

EXACT_NUM = ("Decimal", "Fraction", "int")


def exact_number(rec):
    return rec.get("k") == "N" and rec.get("at") in EXACT_NUM


def judge_quantity(w, rec, value, vec, tname, mode=RM.DEFAULT_MODE,
                   what="result"):
    """rec must be a quantity of type tname in a unit with signature vec and
    amount == value expressed in that unit (rounded once if quantized)."""
    bad = []
    if rec.get("k") != "Q":
        return ["%s is not a quantity: %s" % (what, brief(rec))]
    if rec["t"] != tname:
        bad.append("%s has type %s, expected %s" % (what, rec["t"], tname))
    u = w.units.get(rec["u"])
    if u is None:
        bad.append("%s has unknown unit %r" % (what, rec["u"]))
        return bad
    if u.tname != rec["t"]:
        bad.append("%s: instance of %s carries a unit of %s" %
                   (what, rec["t"], u.tname))
    if rec["at"] not in EXACT_TYPES:
        bad.append("%s amount is a %s" % (what, rec["at"]))
    if vec is not None and u.vec != vec:
        bad.append("%s unit %s has another base-unit signature" %
                   (what, rec["u"]))
        return bad
    want = w.expected_amount(value, rec["u"], mode)
    if val(rec) != want:
        bad.append("%s amount %s %s, expected %s (exact value %s)" %
                   (what, val(rec), rec["u"], want, value))
    return bad


def judge_prediction(w, pred, rec, mode=RM.DEFAULT_MODE, unit_level=False,
                     ufactor=None):
    """-> (problems, outcome class).  unit_level: operands were two units, the
    documented result is the pair (factor, unit-or-None)."""
    kind = pred["kind"]
    if rec is None:
        return ["no observation"], "missing"
    if kind == "zerodiv":
        return [], "zerodiv"
    if kind == "number-lenient":
        if is_exc(rec, "UnitConversionError") or \
                is_exc(rec, "UndefinedResultError"):
            return [], "number-lenient"
        kind = "number"
    if kind == "number":
        if unit_level:
            if rec.get("k") == "T" and len(rec["items"]) == 2 and \
                    rec["items"][1].get("k") == "None" and \
                    exact_number(rec["items"][0]):
                if val(rec["items"][0]) != pred["value"]:
                    return ["factor %s, expected %s" %
                            (val(rec["items"][0]), pred["value"])], "number"
                return [], "number"
            return ["expected the pair (factor, None), got %s" %
                    brief(rec)], "number"
        if not exact_number(rec):
            return ["dimensions cancel: expected the plain exact number %s, "
                    "got %s" % (pred["value"], brief(rec))], "number"
        if val(rec) != pred["value"]:
            return ["number %s, expected %s" % (val(rec), pred["value"])], \
                "number"
        return [], "number"
    if kind == "undefined":
        if is_exc(rec, "UndefinedResultError"):
            return [], "undefined"
        return ["no declared type/unit corresponds: expected "
                "UndefinedResultError, got %s" % brief(rec)], "undefined"
    if kind == "incomm":
        if is_exc(rec, "UndefinedResultError") or \
                is_exc(rec, "UnitConversionError"):
            return [], "incomm"
        return ["operands are incommensurable (signature does not cancel): "
                "a value must not be produced, got %s" % brief(rec)], "incomm"
    if kind == "samediv-error":
        if is_exc(rec, "UnitConversionError") or \
                is_exc(rec, "UndefinedResultError"):
            return [], "samediv-error"
        return ["division between non-convertible units of one type must "
                "not produce a value, got %s" % brief(rec)], "samediv-error"
    if kind == "scaled":
        if rec.get("k") != "Q":
            return ["scaling by a number: expected a quantity, got %s" %
                    brief(rec)], "scaled"
        bad = []
        u = w.units[pred["sym"]]
        if rec["u"] != pred["sym"] or rec["t"] != u.tname:
            bad.append("scaling by a number changed unit/type: %s %s" %
                       (rec["t"], rec["u"]))
        q = w.quantum_of(pred["sym"])
        want = pred["amount"] if q is None else \
            RM.round_to(pred["amount"], q, mode)
        if val(rec) != want:
            bad.append("amount %s, expected %s" % (val(rec), want))
        if rec["at"] not in EXACT_TYPES:
            bad.append("amount is a %s" % rec["at"])
        return bad, "scaled"
    if kind in ("qty", "qty-noref"):
        tname = pred["type"]
        if kind == "qty-noref":
            cands = [w.units[s] for s in pred["cands"]]
            must = any(c.factor == 1 or (ufactor is not None and
                                         c.factor == ufactor) for c in cands)
            if is_exc(rec, "UndefinedResultError"):
                if must:
                    return ["a declared unit corresponds (%s) but the result "
                            "is reported undefined" % pred["cands"]], "qty-noref"
                return [], "gray"
        if unit_level:
            if rec.get("k") == "T" and len(rec["items"]) == 2 and \
                    rec["items"][1].get("k") == "U" and \
                    exact_number(rec["items"][0]):
                sym = rec["items"][1]["sym"]
                u = w.units.get(sym)
                bad = []
                if u is None or u.tname != tname:
                    bad.append("unit %s is not a %s unit" % (sym, tname))
                elif u.vec != pred["vec"]:
                    bad.append("unit %s has another signature" % sym)
                elif val(rec["items"][0]) * u.factor != pred["value"]:
                    bad.append("factor %s x %s = %s, expected %s" % (
                        val(rec["items"][0]), sym,
                        val(rec["items"][0]) * u.factor, pred["value"]))
                return bad, kind
            return ["expected the pair (factor, unit), got %s" %
                    brief(rec)], kind
        return judge_quantity(w, rec, pred["value"], pred["vec"], tname,
                              mode), kind
    return ["unknown prediction kind %s" % kind], "?"


def brief(rec):
    if rec is None:
        return "nothing"
    k = rec.get("k")
    if k == "E":
        return "%s(%s)" % (rec["cls"], rec.get("msg", "")[:80])
    if k == "Q":
        return "%s(%s %s)" % (rec["t"], val(rec), rec["u"])
    if k == "N":
        return "%s(%s)" % (rec["at"], val(rec) if rec.get("a") else rec.get("hex"))
    if k == "T":
        return "(" + ", ".join(brief(x) for x in rec["items"]) + ")"
    if k == "U":
        return "Unit(%s)" % rec["sym"]
    return str(rec)[:120]


def check_ctor_events(chk, w, rec, wid, strict_type=True):
    """Invariants on every instance the constructor choke point produced
    during one program (including intermediates inside the library):
    amount is an exact rational type, the instance's type is its unit's
    type, and -- for quantized units -- the amount is on the unit's grid."""
    n = 0
    for tname, usym, utype, nd, at in rec.get("ctor", []):
        n += 1
        bad = []
        if at not in EXACT_TYPES:
            bad.append("amount held as %s" % at)
        if tname != utype:
            bad.append("instance of %s carries a unit of %s" %
                       (tname, utype))
        u = w.units.get(usym)
        if u is not None and nd[1] is not None:
            if u.tname != utype and strict_type:
                bad.append("unit %s belongs to %s in the model, to %s in "
                           "the library" % (usym, u.tname, utype))
            q = w.quantum_of(usym)
            if q is not None:
                chk.count("ctor events of quantized types")
                if (Fraction(nd[0], nd[1]) / q).denominator != 1:
                    bad.append("amount %s/%s %s is not a multiple of the "
                               "quantum %s" % (nd[0], nd[1], usym, q))
        if bad:
            chk.violation("constructor monitor: %s(%s/%s %s): %s" %
                          (tname, nd[0], nd[1], usym, "; ".join(bad)),
                          dict(event=[tname, usym, utype, nd, at],
                               world=wid), "ctor-invariant")
    chk.count("ctor events checked", n)
