"""Cases: small step lists with a judge, packed into programs."""
from __future__ import annotations

from .ctl import Runner

ALL = ("quantity", "quantity.predefined", "quantity.money")


class Unobservable(Exception):
    """raised by a judge when what it must look at cannot be read"""


class Case:
    __slots__ = ("steps", "judge", "info", "isolate")

    def __init__(self, steps, judge, info=None, isolate=False):
        self.steps = steps
        self.judge = judge
        self.info = info
        self.isolate = isolate


def _prefix(steps, pre):
    out = []
    for st in steps:
        st = {k: v for k, v in st.items() if not k.startswith("_")}
        if st.get("k") is not None:
            st["k"] = pre + st["k"]
        if "body" in st:
            st["body"] = _prefix(st["body"], pre)
        out.append(st)
    return out


def run_cases(chk, R: Runner, cases, per_program=40, preload=ALL,
              prog_timeout=120, timeout=900, prelude=None, on_program=None):
    """Pack cases into programs, run, and call case.judge(obs, rec, case).

    Cases flagged isolate get a program (forked child) of their own.
    Returns number of cases judged."""
    cases = list(cases)
    programs = []
    index = {}
    batch = []

    def flush():
        nonlocal batch
        if not batch:
            return
        pid = "p%d" % len(programs)
        steps = list(prelude or [])
        for ci in batch:
            steps.append({"clear": 1})
            steps.extend(_prefix(cases[ci].steps, "%d|" % ci))
        programs.append({"pid": pid, "steps": steps, "isolate": False})
        index[pid] = batch
        batch = []

    for ci, c in enumerate(cases):
        if c.isolate:
            pid = "i%d" % ci
            programs.append({"pid": pid, "isolate": True,
                             "steps": list(prelude or []) +
                             _prefix(c.steps, "%d|" % ci)})
            index[pid] = [ci]
        else:
            batch.append(ci)
            if len(batch) >= per_program:
                flush()
    flush()
    results = R.run(programs, preload=preload, timeout=timeout,
                    prog_timeout=prog_timeout)
    judged = 0
    for prog in programs:
        rec = results.get(prog["pid"])
        if rec is None:
            continue
        if rec.get("err"):
            chk.inconclusive_because("program %s: %s" %
                                     (prog["pid"], rec["err"][-400:]))
            continue
        if on_program is not None and not rec.get("died"):
            on_program(rec, [cases[ci] for ci in index[prog["pid"]]])
        if rec.get("died"):
            for ci in index[prog["pid"]]:
                cases[ci].judge(None, rec, cases[ci])
                judged += 1
            continue
        per = {}
        for k, v in rec["obs"].items():
            ci, _, kk = k.partition("|")
            per.setdefault(int(ci), {})[kk] = v
        for ci in index[prog["pid"]]:
            try:
                cases[ci].judge(per.get(ci, {}), rec, cases[ci])
            except Unobservable as exc:
                # the observation channel itself is gone (e.g. a repr the
                # judge parses changed its format): neither held nor violated
                chk.inconclusive_because("cannot observe: %s" % exc)
            judged += 1
    return judged


# ---- expression builders -------------------------------------------------

QUANTITY = ["g", "quantity:Quantity"]


def U(sym):
    return ["u", sym]


def Q(amount, sym):
    """Quantity(amount, Unit(sym)) through the generic factory"""
    return ["c", QUANTITY, [amount, ["u", sym]]]


def V(name):
    return ["v", name]


def OP(op, a, b):
    return ["op", op, a, b]


def M(obj, meth, *args, **kw):
    return ["m", obj, meth, list(args), kw]


def MODE(name):
    return ["mode", name]


def world_program(chk, plan, subcases, wid, on_ok=None, extra_pre=None):
    """One isolated program: the declarations of `plan`, then the steps of
    every subcase (steps, judge(obs)).  If a declaration the model considers
    valid is rejected, the world is skipped (that is C15's business)."""
    from .gen import plan_steps
    steps = list(extra_pre or []) + plan_steps(plan)
    index = []
    for j, (st, judge) in enumerate(subcases):
        pre = "s%d." % j
        steps.extend(_prefix(st, pre))
        index.append((pre, judge))

    def judge_all(obs, rec, case):
        if obs is None:
            chk.inconclusive_because("world %s died: %s" %
                                     (wid, rec.get("died")))
            return
        failed = [k for k in obs if k[0] == "d" and k[1:].isdigit() and
                  obs[k].get("k") == "E"]
        if failed:
            chk.count("world-skipped|valid-declaration-rejected (C15's)")
            return
        chk.count("worlds")
        if on_ok:
            on_ok()
        for pre, judge in index:
            sub = {k[len(pre):]: v for k, v in obs.items()
                   if k.startswith(pre)}
            try:
                judge(sub)
            except Unobservable as exc:
                chk.inconclusive_because("cannot observe: %s" % exc)
    return Case(steps, judge_all, isolate=True)


def currency_steps(currencies):
    """steps that make the currencies of a {code: minor units | smallest
    fraction} dict exist: ISO codes by register_currency, the others by
    Money.new_unit(code, name, smallest_fraction=...)"""
    from fractions import Fraction
    from .ctl import num
    money = ["g", "quantity.money:Money"]
    out = []
    for code, minor in currencies.items():
        if isinstance(minor, Fraction):
            out.append({"e": ["m", money, "new_unit",
                              [["s", code], ["s", "user currency"]],
                              {"smallest_fraction": num(minor, "D")}]})
        else:
            out.append({"e": M(money, "register_currency", ["s", code])})
    return out
