"""Controller side: spawning workers, sharding programs, collecting records.

The controller never imports ``quantity``.
"""
from __future__ import annotations

import json
import os
import shutil
import subprocess
import sys
import tempfile
import time

HERE = os.path.dirname(os.path.abspath(__file__))
VERIF = os.path.dirname(HERE)
WORKER = os.path.join(HERE, "worker.py")
PY = os.environ.get("VERIF_PYTHON", "/venv/bin/python")
NCPU = int(os.environ.get("VERIF_WORKERS", "0")) or min(16, os.cpu_count() or 4)


def repo_path():
    return os.environ.get("VERIF_REPO", "/repo")


class WorkerLost(Exception):
    pass


class Runner:
    """Runs programs in worker processes against the repository's tree."""

    def __init__(self, native=False, accel=True, reach=True, workers=None):
        self.repo = repo_path()
        self.native = native
        self.accel = accel
        self.reach_on = reach
        self.workers = workers or NCPU
        self.meta = {}
        self.reach = {}
        self.lost = []          # pids whose worker died / timed out
        self.died = []          # isolated programs that died
        self.tmp = tempfile.mkdtemp(prefix="vq-")
        self.batches = 0
        self.programs_run = 0
        self.nctor = 0
        self.max_timeout = None     # set by main: 300 s quick, 3600 thorough
        self.extra_env = {}
        self.pythonpath_prefix = []

    def close(self):
        shutil.rmtree(self.tmp, ignore_errors=True)

    def env(self):
        env = dict(os.environ)
        env["PYTHONPATH"] = os.pathsep.join(
            list(self.pythonpath_prefix) + [os.path.join(self.repo, "src")])
        # deterministic per run, but not the same for every seed: behaviour
        # that depends on set / dict-of-object iteration order gets a chance
        env["PYTHONHASHSEED"] = str(
            int(os.environ.get("VERIF_SEED", "0") or 0) % 4294967295)
        env["PYTHONDONTWRITEBYTECODE"] = "1"
        if self.native:
            env.pop("DECIMALFP_FORCE_PYTHON_IMPL", None)
        else:
            env["DECIMALFP_FORCE_PYTHON_IMPL"] = "1"
        env.update(self.extra_env)
        return env

    def run(self, programs, preload=("quantity", "quantity.predefined",
                                     "quantity.money"),
            timeout=600, prog_timeout=120, shards=None, ctor_probe=True,
            divlog=False):
        """Run programs; returns {pid: record}.  Programs keep their order
        inside a shard; sharding is round-robin."""
        programs = list(programs)
        if not programs:
            return {}
        if self.max_timeout:
            timeout = min(timeout, self.max_timeout)
        n = shards or min(self.workers, max(1, len(programs) // 4))
        chunks = [programs[i::n] for i in range(n)]
        procs = []
        self.batches += 1
        for i, chunk in enumerate(chunks):
            base = os.path.join(self.tmp, "b%d-%d" % (self.batches, i))
            job = {"preload": list(preload), "accel": self.accel,
                   "reach": self.reach_on, "programs": chunk,
                   "prog_timeout": prog_timeout, "ctor_probe": ctor_probe,
                   "divlog": divlog, "faulthandler": self.native}
            with open(base + ".job", "w") as f:
                json.dump(job, f)
            errf = open(base + ".err", "w")
            p = subprocess.Popen([PY, WORKER, base + ".job", base + ".out"],
                                 env=self.env(), stdout=errf, stderr=errf,
                                 cwd=self.tmp)
            procs.append((p, base, chunk, errf))
        results = {}
        t_end = time.monotonic() + timeout
        for p, base, chunk, errf in procs:
            left = max(1.0, t_end - time.monotonic())
            status = None
            try:
                status = p.wait(timeout=left)
            except subprocess.TimeoutExpired:
                p.kill()
                p.wait()
                status = "timeout"
            errf.close()
            done = False
            try:
                with open(base + ".out") as f:
                    for line in f:
                        try:
                            rec = json.loads(line)
                        except ValueError:
                            continue
                        if rec.get("hello"):
                            self.meta = rec
                        elif rec.get("done"):
                            done = True
                            for k, lines in rec.get("reach", {}).items():
                                s = self.reach.setdefault(k, set())
                                s.update(lines)
                        else:
                            results[rec["pid"]] = rec
                            self.nctor += rec.get("nctor", 0)
                            if rec.get("died"):
                                self.died.append((rec["pid"], rec["died"]))
            except OSError:
                pass
            if not done:
                tail = ""
                try:
                    with open(base + ".err") as f:
                        tail = f.read()[-1500:]
                except OSError:
                    pass
                for prog in chunk:
                    if prog["pid"] not in results:
                        self.lost.append((prog["pid"], str(status), tail))
            for ext in (".job", ".out", ".err"):
                try:
                    os.unlink(base + ext)
                except OSError:
                    pass
        self.programs_run += len(programs)
        return results

    def anchors(self, names):
        """reach summary for anchored mechanisms: name -> lines hit"""
        out = {}
        for name in names:
            hits = [len(v) for k, v in self.reach.items()
                    if k.split(":", 1)[1] == name or
                    k.split(":", 1)[1].endswith("." + name)]
            out[name] = sum(hits) if hits else "anchor not found (refactored?) or not reached"
        return out


# ---------------------------------------------------------------------------
# helpers for building expressions (controller side)

from fractions import Fraction  # noqa: E402


def num(x, kind=None):
    """Encode a Fraction/int as an expression of the given numeric kind.

    kinds: int, F (Fraction), D (decimalfp.Decimal from string), SD (stdlib
    decimal), fl (float; value must be exactly representable), s (numeric
    string).  Default: D if the value is a terminating decimal, else F.
    """
    x = Fraction(x)
    if kind is None:
        kind = "D" if dec_str(x) is not None else "F"
    if kind == "int":
        assert x.denominator == 1
        return ["i", x.numerator]
    if kind == "F":
        return ["F", x.numerator, x.denominator]
    if kind in ("D", "SD", "s"):
        s = dec_str(x)
        assert s is not None, x
        return [kind, s]
    if kind == "fl":
        f = x.numerator / x.denominator
        assert Fraction(f) == x
        return ["fl", f.hex()]
    raise ValueError(kind)


def dec_str(x):
    """Exact decimal string of a Fraction, or None if not terminating."""
    x = Fraction(x)
    d = x.denominator
    p = 0
    while d % 10 == 0:
        d //= 10
        p += 1
    p2 = p5 = 0
    while d % 2 == 0:
        d //= 2
        p2 += 1
    while d % 5 == 0:
        d //= 5
        p5 += 1
    if d != 1:
        return None
    p += max(p2, p5)
    v = x.numerator * 10 ** p // x.denominator
    assert Fraction(v, 10 ** p) == x
    sign = "-" if v < 0 else ""
    digits = str(abs(v))
    if p == 0:
        return sign + digits
    digits = digits.rjust(p + 1, "0")
    return sign + digits[:-p] + "." + digits[-p:]


def val(rec):
    """Fraction value of a described number / quantity amount."""
    a = rec.get("a")
    if a is None:
        return None
    return Fraction(a[0], a[1])


def is_exc(rec, name=None):
    if rec is None or rec.get("k") != "E":
        return False
    return name is None or name in rec.get("mro", ())


EXACT_TYPES = ("Decimal", "Fraction", "int")  # any exact rational type
