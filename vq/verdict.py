"""Three-valued verdicts, evidence files, replay files, known findings."""
from __future__ import annotations

import json
import os
import sys
import time

from .ctl import VERIF

EVIDENCE_DIR = os.environ.get("VERIF_EVIDENCE_DIR") or \
    os.path.join(VERIF, "evidence")
REPLAY_DIR = os.path.join(EVIDENCE_DIR, "replay")
KNOWN = os.path.join(VERIF, "known_findings.json")

MAX_WITNESSES = 25


def load_known():
    try:
        with open(KNOWN) as f:
            return json.load(f).get("findings", [])
    except OSError:
        return []


class Check:
    def __init__(self, prop, tier, seed, level="exploration", rule=""):
        self.prop = prop
        self.tier = tier
        self.seed = seed
        self.level = level
        self.rule = rule
        self.t0 = time.monotonic()
        self.evaluations = 0
        self.distinct = set()
        self.classes = {}
        self.required = {}
        self.samples = []
        self.max_samples = 6
        self.violations = []        # (what, witness, mech)
        self.nviol = 0
        self.known_seen = {}
        self.viol_by_mech = {}
        self.inconclusive = []
        self.exhaustive = {}
        self.extra = {}
        self.assumptions = []
        self.known = [k for k in load_known() if k["property"] == prop]

    # ---- counting
    def case(self, key=None, nontrivial=True, n=1):
        self.evaluations += n
        if key is not None and nontrivial:
            if len(self.distinct) < 2_000_000:
                self.distinct.add(hash(key) if not isinstance(key, int)
                                  else key)

    def count(self, cls, n=1):
        self.classes[cls] = self.classes.get(cls, 0) + n

    def require(self, cls, minimum=1):
        self.required[cls] = max(self.required.get(cls, 0), minimum)

    def sample(self, obj, force=False):
        if force or len(self.samples) < self.max_samples:
            self.samples.append(obj)

    def inconclusive_because(self, why):
        if len(self.inconclusive) < 20:
            self.inconclusive.append(why)

    # ---- violations
    def violation(self, what, witness, mech=None):
        """Record a disagreement between oracle and observation.

        mech: mechanism class computed by the property's classifier from the
        witness (never a seed/hash); suppressed only if known_findings.json
        lists it as open for this property."""
        if mech is not None:
            for k in self.known:
                if k["key"] == mech and k.get("status") == "open":
                    ks = self.known_seen.setdefault(
                        mech, {"n": 0, "what": k.get("what", what),
                               "first": witness})
                    ks["n"] += 1
                    return
        self.nviol += 1
        self.viol_by_mech[mech] = self.viol_by_mech.get(mech, 0) + 1
        # keep witnesses of as many different mechanisms as possible
        if self.viol_by_mech[mech] <= 3 and \
                len(self.violations) < MAX_WITNESSES:
            self.violations.append((what, witness, mech))

    # ---- the end
    def absorb_runner(self, R):
        for pid, status, tail in R.lost[:5]:
            self.inconclusive_because(
                "worker lost program %r (%s) %s" % (pid, status, tail[-300:]))
        self.extra["backend"] = R.meta.get("backend")
        self.extra["accel"] = R.meta.get("accel")
        self.extra["quantity_file"] = R.meta.get("quantity_file")
        self.extra["ctor_events"] = R.nctor
        self.extra["programs_run"] = R.programs_run
        if R.meta.get("quantity_file") and not \
                R.meta["quantity_file"].startswith(R.repo):
            self.inconclusive_because(
                "worker imported quantity from %s, not from %s" %
                (R.meta["quantity_file"], R.repo))

    def finish(self, runner=None, anchors=()):
        if runner is not None:
            self.absorb_runner(runner)
            if anchors:
                self.extra["reach"] = runner.anchors(anchors)
        for cls, minimum in self.required.items():
            if self.classes.get(cls, 0) < minimum:
                self.inconclusive_because(
                    "conclusiveness counter %r = %d < %d" %
                    (cls, self.classes.get(cls, 0), minimum))
        if self.evaluations == 0:
            self.inconclusive_because("no case was evaluated")
        wall = time.monotonic() - self.t0
        os.makedirs(REPLAY_DIR, exist_ok=True)
        replay_paths = []
        for i, (what, witness, mech) in enumerate(self.violations):
            path = os.path.join(REPLAY_DIR, "%s-%s-%d.json" %
                                (self.prop, self.tier, i))
            with open(path, "w") as f:
                json.dump({"property": self.prop, "what": what,
                           "mechanism": mech, "seed": self.seed,
                           "tier": self.tier, "witness": witness}, f,
                          indent=1, default=str)
            replay_paths.append(path)
        status = ("VIOLATED" if self.nviol else
                  "INCONCLUSIVE" if self.inconclusive else "HELD")
        cov = {
            "evaluations": int(self.evaluations),
            "distinct_nontrivial": len(self.distinct),
            "rule": self.rule,
            "samples": self.samples or [None],
            "events_by_class": dict(sorted(self.classes.items())),
            "required_counters": self.required,
            "exhaustive": bool(self.exhaustive) and all(
                self.exhaustive.values()),
            "exhaustive_subspaces": self.exhaustive,
            "known_findings_seen": {k: {"n": v["n"], "what": v["what"]}
                                    for k, v in self.known_seen.items()},
            "violation_witnesses": [
                {"what": w, "mechanism": m, "replay": p}
                for (w, _, m), p in zip(self.violations, replay_paths)],
            "violations_by_mechanism": self.viol_by_mech,
            "status": status,
            "inconclusive_reasons": self.inconclusive,
        }
        cov.update(self.extra)
        ev = {"property_id": self.prop, "tier": self.tier,
              "seed": int(self.seed), "level": self.level, "coverage": cov,
              "assumptions": self.assumptions, "wall_s": round(wall, 3),
              "violations": int(self.nviol)}
        os.makedirs(EVIDENCE_DIR, exist_ok=True)
        with open(os.path.join(EVIDENCE_DIR, self.prop + ".json"), "w") as f:
            json.dump(ev, f, indent=1, default=str)
        # ---- report
        print("%s %s tier=%s seed=%s: %d evaluations, %d distinct "
              "non-trivial, %.1fs" % (self.prop, status, self.tier,
                                      self.seed, self.evaluations,
                                      len(self.distinct), wall))
        for cls, n in sorted(self.classes.items()):
            print("  observed %-44s %d" % (cls, n))
        for mech, ks in self.known_seen.items():
            print("KNOWN-FINDING: property=%s %s: %s (seen %d times)" %
                  (self.prop, mech, ks["what"], ks["n"]))
        if self.nviol:
            print("  violations by mechanism: %s" % self.viol_by_mech)
            for (what, _, mech), path in zip(self.violations, replay_paths):
                print("  violation: %s [%s] -> %s" % (what, mech, path))
            print("VIOLATION property=%s replay=%s" %
                  (self.prop, replay_paths[0]))
            return 1
        if self.inconclusive:
            for why in self.inconclusive:
                print("INCONCLUSIVE property=%s reason=%s" % (self.prop, why))
            return 2
        return 0
