#!/bin/sh
# tools/allchecks.sh <tree> [tier] [seed]  -- run every check against a tree
# (a directory that contains src/quantity); evidence goes to a scratch dir.
tree="$(readlink -f "$1")"; tier="${2:-quick}"; seed="${3:-0}"
here="$(cd "$(dirname "$0")/.." && pwd)"
ev="$(mktemp -d /tmp/vq-all-XXXXXX)"
trap 'rm -rf "$ev"' EXIT
for i in 01 02 03 04 05 06 07 08 09 10 11 12 13 14 15 16 17 18 19 20; do
  VERIF_SEED=$seed VERIF_REPO="$tree" VERIF_EVIDENCE_DIR="$ev" "$here/check" C$i --tier "$tier" 2>&1 \
    | grep -E "^C$i|^VIOLATION|^INCONCLUSIVE|^  violation|violations by" | cut -c1-${ALLCHECKS_WIDTH:-260} | head -${ALLCHECKS_LINES:-6}
done
