#!/usr/bin/env python3
"""Regenerates MANIFEST.json from the check modules (run from /verif)."""
import importlib
import json
import os
import sys

sys.path.insert(0, os.path.dirname(os.path.dirname(os.path.abspath(__file__))))

TEXT = {
 "C01": ("conversions of the real library observed at its public boundary and compared with an exact-rational scale model built from the declaration events (predefined catalogue: all ordered unit pairs, sampled triples; synthetic worlds with definition chains); plus a native-back-end tier run crash-isolated", "unit conversion differential vs. independent scale model"),
 "C02": ("all 113x113 predefined unit pairs x {*,/} and powers, synthetic worlds incl. types without reference unit, every result judged by a dimension/signature model written from the property text", "operation results vs. dimension-and-signature reference model"),
 "C03": ("all ordered pairs of distinct types x operators, six plain-number kinds x both operand orders, same-type triples by exact reference value", "boundary monitor + reference-value oracle"),
 "C04": ("colliding triples (equal across units, near-ties, Decimal/Fraction twins), sorted(), all unit pairs compared as units, judged by exact reference values", "comparison results vs. exact reference values"),
 "C05": ("every producing operation x quantized units x 8 default rounding modes judged by the exact-once formula round(x/quantum, mode)*quantum with an independent rounding model; constructor choke-point monitor checks every instance created anywhere", "constructor choke-point invariant monitor + single-rounding oracle"),
 "C06": ("allocations over ratio kinds x disperse flag x 8 modes checked for conservation, unchanged original, grid membership and share deviation", "conservation / deviation oracle over observed allocations"),
 "C07": ("random and exhaustively enumerated terms over harness-defined protocol elements and real units, every result re-evaluated by a denotation model (rational factor, exponent vector over base elements)", "term results vs. denotational model; canonical-form shape monitor"),
 "C08": ("exhaustive over the bundled ISO 4217 table (parsed independently) and over all ordered currency pairs", "exhaustive enumeration against independent ISO 4217 parse"),
 "C09": ("normal-form predicates, accuracy bound, inversion and the four triangulation orientations over seeded inputs of every kind", "normal-form specification predicates over observed rates"),
 "C10": ("money and compound price operations judged by single-rounding / exact-value oracles over declared and missing target units", "rate application vs. exact oracle"),
 "C11": ("seeded update/lookup histories replayed through a table model (last write wins, period containment by date arithmetic), expected rate objects rebuilt from the selected raw inputs plus an independent numeric bound", "history replay through a rate-table model"),
 "C12": ("all well-formed registration/with histories up to a bounded size (real nested with statements, marker exception) plus random long ones, registry listing and a converter-identifying conversion observed after every step and compared with a stack model", "exhaustive bounded history enumeration against a LIFO stack model"),
 "C13": ("the full grid of modes x representation x sign x tie classes judged by an independent rounding model cross-checked against the standard decimal module", "rounding grid vs. two independent rounding oracles"),
 "C14": ("temperature pairs/triples and synthetic tables generated from a consistent affine model with rows removed", "affine reference model"),
 "C15": ("seeded declaration histories, one fresh process each, directory snapshot through public calls after every step compared with a directory model, scale and reference-unit probes", "quiescent-point directory walker vs. directory model"),
 "C16": ("for every base history an invalid step of 16 classes is inserted before every position; snapshots before and after each rejected step must be identical; converter lookups before/after rejected updates", "fault enumeration with before/after directory snapshots"),
 "C17": ("each world executed under five schedules in fresh processes; repeats, early-vs-final, direct-unit and pairwise cross-process comparison of exact reference values", "differential re-execution under different histories in fresh processes"),
 "C18": ("all predefined units x numeric inputs of every kind x both factories, str/format/re-parse, grammar-mutated malformed strings", "round-trip and exact-value oracle"),
 "C19": ("pairs constructed to be equal by the model in each hashable class; hash and set size observed whenever the library reports equality", "eq-implies-hash monitor over constructed equal pairs"),
 "C20": ("exhaustive comparison of the catalogue, prefixes and documentation tables with a hand-written SI / yard-pound table", "exhaustive comparison with hand-written SI table"),
}

checks = []
for i in range(1, 21):
    pid = "C%02d" % i
    mod = importlib.import_module("vq.props." + pid.lower())
    level = getattr(mod, "LEVEL", "exploration")
    text, tech = TEXT[pid]
    checks.append({
        "property_id": pid,
        "quick_cmd": "./check %s --tier quick" % pid,
        "thorough_cmd": "./check %s --tier thorough" % pid,
        "evidence_file": "/verif/evidence/%s.json" % pid,
        "replay_cmd_template": "./check --replay {path}",
        "engine": "vq",
        "level_claimed": {
            "category": level,
            "text": "Runtime monitoring: " + text + ". Held on the executions produced, nothing more; finite sub-spaces are marked exhaustive in the evidence only where enumerated completely.",
            "design_ref": "DESIGN.md section 5, " + pid},
        "level_note": "Trusted base: CPython, the pure-Python back end of decimalfp 0.13.0 (with the audited early-exit accelerator of DESIGN.md section 3), the harness's reference models (fractions.Fraction arithmetic) and the property statement as read in DESIGN.md section 5 (latitudes listed there).",
        "technique": "runtime monitoring: " + tech,
    })

manifest = {
    "version": 1,
    "setup_cmd": "./setup.sh",
    "hooks": {
        "guard": "QUANTITY_VERIF",
        "enable": "no source hooks are needed: all probes (constructor choke-point monitor, directory walker, sys.monitoring reach monitor) attach from outside the repository when the worker starts; the guard name is reserved and unused",
        "baseline_off_cmd": "cd /repo && /venv/bin/python -m pytest -ra -q -p no:cacheprovider --timeout=900 --continue-on-collection-errors",
        "source_commits": [],
        "add_only": True,
    },
    "engines": [{
        "name": "vq", "path": "vq/",
        "serves_properties": ["C%02d" % i for i in range(1, 21)],
        "kind_free_text": "controller (never imports quantity) generates JSON programs, workers interpret them against the real package from /repo's working tree under probes, reference-model oracles judge the observation records",
    }],
    "checks": checks,
    "not_applicable": [],
    "notes": "Exit codes: 0 held (KNOWN-FINDING lines possible), 1 violation, 2 inconclusive. VERIF_SEED seeds every generator; VERIF_REPO overrides the tree under test (self-tests).",
}
with open("MANIFEST.json", "w") as f:
    json.dump(manifest, f, indent=1)
print("wrote MANIFEST.json with", len(checks), "checks")
