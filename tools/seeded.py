#!/usr/bin/env python3
"""Ingest and evaluate seeded changes written by sub-agents.

  tools/seeded.py ingest <PROP> <n> [<worktree>]   copy change<n>.diff, demo<n>.py
        and notes from <worktree>/_seed into /verif/seeded/<PROP>-<n>/, confirm
        in a scratch copy of /repo that the suite passes with the change and
        that the demo fails with it and passes without it, then run checks.
  tools/seeded.py run <id> [<PROP> ...]   re-run checks (default: the owning
        property's quick check) against seeded/<id>/patch.diff
  tools/seeded.py all                      re-run every seeded change
  tools/seeded.py sweep [seeds] [jobs]     every seeded change against its
        owner's quick check under several generator seeds (default 1,2,3;
        4 at a time); writes seeded/SWEEP.json and lists the changes that
        some seed misses -- a catch must not depend on the luck of a seed

Scratch copies live under mktemp -d and are removed afterwards.
"""
import json
import os
import shutil
import subprocess
import sys
import tempfile

VERIF = os.path.dirname(os.path.dirname(os.path.abspath(__file__)))
SEEDED = os.path.join(VERIF, "seeded")
PY = "/venv/bin/python"


def sh(cmd, cwd=None, env=None, timeout=1800):
    e = dict(os.environ)
    e["PYTHONDONTWRITEBYTECODE"] = "1"
    if env:
        e.update(env)
    p = subprocess.run(cmd, shell=True, cwd=cwd, env=e, timeout=timeout,
                       stdout=subprocess.PIPE, stderr=subprocess.STDOUT,
                       text=True)
    return p.returncode, p.stdout


def scratch_repo(patch=None):
    d = tempfile.mkdtemp(prefix="vq-seed-")
    repo = os.path.join(d, "repo")
    os.makedirs(repo)
    for name in ("src", "tests", "setup.cfg", "pyproject.toml"):
        src = os.path.join("/repo", name)
        if os.path.isdir(src):
            shutil.copytree(src, os.path.join(repo, name))
        elif os.path.exists(src):
            shutil.copy(src, repo)
    if patch:
        rc, out = sh("patch -p1 -s < %s" % patch, cwd=repo)
        if rc != 0:
            shutil.rmtree(d, ignore_errors=True)
            raise RuntimeError("patch failed: " + out)
    return d, repo


def run_checks(patch, props, tier="quick", seed=None):
    d, repo = scratch_repo(patch)
    res = {}
    try:
        for prop in props:
            env = {"VERIF_REPO": repo,
                   "VERIF_EVIDENCE_DIR": os.path.join(d, "ev")}
            if seed is not None:
                env["VERIF_SEED"] = str(seed)
            rc, out = sh("%s/check %s --tier %s" % (VERIF, prop, tier),
                         env=env)
            lines = [ln for ln in out.splitlines()
                     if ln.startswith(("VIOLATION", "INCONCLUSIVE",
                                       "  violation:", "  violations by"))]
            res[prop] = {"exit": rc, "lines": [ln[:300] for ln in lines[:4]]}
    finally:
        shutil.rmtree(d, ignore_errors=True)
    return res


def confirm(patch, demo):
    """suite passes with the change; demo fails with it, passes without"""
    out = {}
    d, repo = scratch_repo(patch)
    try:
        rc, o = sh("%s -m pytest -q -p no:cacheprovider -n 8 tests" % PY,
                   cwd=repo, env={"PYTHONPATH": os.path.join(repo, "src")})
        out["suite_with_change"] = o.strip().splitlines()[-1][:120]
        out["suite_passes"] = rc == 0
        rc, o = sh("%s %s" % (PY, demo), cwd=repo,
                   env={"PYTHONPATH": os.path.join(repo, "src"),
                        "DECIMALFP_FORCE_PYTHON_IMPL": "1"})
        out["demo_with_change_exit"] = rc
        out["demo_with_change_tail"] = o.strip().splitlines()[-1][:300] \
            if o.strip() else ""
    finally:
        shutil.rmtree(d, ignore_errors=True)
    d, repo = scratch_repo(None)
    try:
        rc, o = sh("%s %s" % (PY, demo), cwd=repo,
                   env={"PYTHONPATH": os.path.join(repo, "src"),
                        "DECIMALFP_FORCE_PYTHON_IMPL": "1"})
        out["demo_without_change_exit"] = rc
    finally:
        shutil.rmtree(d, ignore_errors=True)
    out["confirmed"] = bool(out["suite_passes"] and
                            out["demo_with_change_exit"] != 0 and
                            out["demo_without_change_exit"] == 0)
    return out


def ingest(prop, n, wt=None, label=None):
    wt = wt or "/tmp/wt-%s" % prop
    sid = "%s-%s" % (prop, label or n)
    dst = os.path.join(SEEDED, sid)
    os.makedirs(dst, exist_ok=True)
    shutil.copy(os.path.join(wt, "_seed", "change%s.diff" % n),
                os.path.join(dst, "patch.diff"))
    shutil.copy(os.path.join(wt, "_seed", "demo%s.py" % n),
                os.path.join(dst, "demo.py"))
    notes = os.path.join(wt, "_seed", "notes.md")
    if os.path.exists(notes):
        shutil.copy(notes, os.path.join(dst, "notes.md"))
    meta = {"id": sid, "property": prop, "origin": "fresh sub-agent that was "
            "given only the property text and a scratch worktree"}
    meta["confirmation"] = confirm(os.path.join(dst, "patch.diff"),
                                   os.path.join(dst, "demo.py"))
    meta["checks"] = run_checks(os.path.join(dst, "patch.diff"), [prop])
    meta["caught_by"] = [p for p, r in meta["checks"].items()
                         if r["exit"] == 1]
    with open(os.path.join(dst, "meta.json"), "w") as f:
        json.dump(meta, f, indent=1)
    print(sid, "confirmed=%s" % meta["confirmation"]["confirmed"],
          "caught_by=%s" % meta["caught_by"],
          meta["confirmation"]["demo_with_change_tail"][:100])
    return meta


def rerun(sid, props=None, tier="quick"):
    dst = os.path.join(SEEDED, sid)
    with open(os.path.join(dst, "meta.json")) as f:
        meta = json.load(f)
    props = props or [meta["property"]]
    res = run_checks(os.path.join(dst, "patch.diff"), props, tier)
    meta.setdefault("checks", {}).update(res)
    meta["caught_by"] = sorted(p for p, r in meta["checks"].items()
                               if r["exit"] == 1)
    with open(os.path.join(dst, "meta.json"), "w") as f:
        json.dump(meta, f, indent=1)
    print(sid, {p: r["exit"] for p, r in res.items()})


if __name__ == "__main__":
    cmd = sys.argv[1]
    if cmd == "ingest":
        ingest(sys.argv[2], sys.argv[3], *sys.argv[4:6])
    elif cmd == "run":
        rerun(sys.argv[2], sys.argv[3:] or None)
    elif cmd == "all":
        # the owner's quick check, or -- for the few changes whose first
        # visible effect lies in a sibling property's territory (meta.json
        # "history": "not caught by the owning check") -- the recorded
        # sibling checks
        for sid in sorted(os.listdir(SEEDED)):
            mp = os.path.join(SEEDED, sid, "meta.json")
            if os.path.exists(mp):
                with open(mp) as f:
                    m = json.load(f)
                if str(m.get("history", "")).startswith("not caught by the "
                                                        "owning check"):
                    rerun(sid, [p for p in m.get("caught_by", [])
                                if p != m["property"]] or None)
                else:
                    rerun(sid)
    elif cmd == "sweep":
        from concurrent.futures import ThreadPoolExecutor
        seeds = [int(x) for x in (sys.argv[2] if len(sys.argv) > 2
                                  else "1,2,3").split(",")]
        jobs = int(sys.argv[3]) if len(sys.argv) > 3 else 4
        ids = sorted(d for d in os.listdir(SEEDED)
                     if os.path.exists(os.path.join(SEEDED, d, "meta.json")))
        os.environ.setdefault("VERIF_WORKERS", "4")

        def one(sid):
            with open(os.path.join(SEEDED, sid, "meta.json")) as f:
                prop = json.load(f)["property"]
            out = {}
            for sd in seeds:
                r = run_checks(os.path.join(SEEDED, sid, "patch.diff"),
                               [prop], seed=sd)
                out[str(sd)] = r[prop]["exit"]
            print(sid, out, flush=True)
            return sid, out
        with ThreadPoolExecutor(jobs) as ex:
            res = dict(ex.map(one, ids))
        with open(os.path.join(SEEDED, "SWEEP.json"), "w") as f:
            json.dump({"seeds": seeds, "results": res}, f, indent=1,
                      sort_keys=True)
        weak = {k: v for k, v in res.items() if any(x != 1
                                                    for x in v.values())}
        print("missed under some seed:", json.dumps(weak, indent=1))
